(** Lemmas about Model/Aggregate.v (property C08). *)
From Coq Require Import ZArith List Bool Lia ZifyBool.
From Bermuda Require Import Model.Base Lib.Calendar Model.Summarize Model.Basis Model.Aggregate
  Proofs.SummarizeLib Proofs.Summarize Proofs.Summarize2.
Import ListNotations.
Local Open Scope Z_scope.

(* ================================================================== 1. the window walks *)
Fixpoint iter (n : nat) (f : Z -> Z) (x : Z) : Z := match n with O => x | S n => f (iter n f x) end.
Lemma iter_succ_r n f x : iter (S n) f x = iter n f (f x).
Proof. induction n as [|n IH]; [reflexivity|]. cbn [iter] in *. now rewrite IH. Qed.
Section WalkFacts.
  Variable step back : Z -> Z.
  Hypothesis step_up : forall x, x < step x.
  Hypothesis back_down : forall x, back x < x.
  Hypothesis step_back : forall x, step (back x) = x.

  (* while step(cur) < first: cur = step(cur)   -- terminates within first-cur+1 rounds *)
  Lemma walk_up_spec : forall fuel cur first,
    Z.max 0 (first - cur) < Z.of_nat fuel ->
    exists c n, walk_up step fuel cur first = Some c /\ c = iter n step cur /\
                first <= step c /\ (cur < first -> c < first) /\ cur <= c.
  Proof.
    induction fuel as [|f IH]; intros cur first Hf; [lia|]. cbn [walk_up].
    destruct (step cur <? first) eqn:E.
    - pose proof (step_up cur). destruct (IH (step cur) first) as (c & n & E1 & E2 & A & B & C); [lia|].
      exists c, (S n). rewrite iter_succ_r. repeat split; auto; try lia; try (intros _; apply B; lia).
    - exists cur, O. cbn. repeat split; auto; lia.
  Qed.
  (* while cur >= first: cur = back(cur) *)
  Lemma walk_down_spec : forall fuel cur first,
    Z.max 0 (cur - first + 1) < Z.of_nat fuel ->
    exists c n, walk_down back fuel cur first = Some c /\ c = iter n back cur /\
                c < first /\ (first <= cur -> first <= step c) /\ (cur < first -> c = cur).
  Proof.
    induction fuel as [|f IH]; intros cur first Hf; [lia|]. cbn [walk_down].
    destruct (first <=? cur) eqn:E.
    - pose proof (back_down cur). destruct (IH (back cur) first) as (c & n & E1 & E2 & A & B & C); [lia|].
      assert (first <= step c) as HB.
      { destruct (Z_le_gt_dec first (back cur)) as [Hle|Hgt]; [auto|]. rewrite C by lia. rewrite step_back. lia. }
      exists c, (S n). rewrite iter_succ_r. repeat split; auto; try lia.
    - exists cur, O. cbn. repeat split; auto; lia.
  Qed.

  (* the grid point immediately before `first`:  c < first <= step c,  c on the orbit of origin *)
  Theorem align_spec fuel origin first :
    Z.abs (first - origin) + 2 < Z.of_nat fuel ->
    exists c n, align step back fuel origin first = Some c /\
                (c = iter n step origin \/ c = iter n back origin) /\
                c < first /\ first <= step c.
  Proof.
    intros Hf. unfold align.
    destruct (walk_up_spec fuel origin first) as (c1 & n1 & E1 & O1 & A1 & B1 & C1); [lia|]. rewrite E1.
    destruct (Z_lt_le_dec origin first) as [Hlt|Hge].
    - specialize (B1 Hlt).
      destruct (walk_down_spec fuel c1 first) as (c & n & E & _ & A & _ & C); [lia|].
      rewrite E. rewrite (C B1). exists c1, n1. auto.
    - (* origin >= first: the first loop does not move *)
      assert (c1 = origin) as ->.
      { destruct fuel; [lia|]. cbn [walk_up] in E1. pose proof (step_up origin).
        destruct (step origin <? first) eqn:E; [lia|]. now inversion E1. }
      destruct (walk_down_spec fuel origin first) as (c & n & E & O & A & B & _); [lia|].
      rewrite E. exists c, n. auto.
  Qed.

  (* while cur <= last: valid.append(cur); cur = step(cur) *)
  Lemma grid_upto_spec : forall fuel cur last,
    Z.max 0 (last - cur + 1) < Z.of_nat fuel ->
    exists l, grid_upto step fuel cur last = Some l /\
              forall x, In x l <-> exists n, x = iter n step cur /\ x <= last.
  Proof.
    assert (Hmono : forall n x, x <= iter n step x).
    { induction n as [|n IHn]; intros x; cbn [iter]; [lia|]. pose proof (step_up (iter n step x)).
      specialize (IHn x). lia. }
    induction fuel as [|f IH]; intros cur last Hf; [lia|]. cbn [grid_upto].
    destruct (cur <=? last) eqn:E.
    - pose proof (step_up cur). destruct (IH (step cur) last) as (l & -> & Hl); [lia|].
      exists (cur :: l). split; [reflexivity|]. intros x. cbn [In]. rewrite Hl. split.
      + intros [<-|(n & -> & Hn)]; [exists O; cbn; lia|]. exists (S n). rewrite iter_succ_r. auto.
      + intros (n & -> & Hn). destruct n as [|n]; [now left|]. right. exists n.
        rewrite iter_succ_r in Hn |- *. auto.
    - exists []. split; [reflexivity|]. intros x. split; [intros []|]. intros (n & -> & Hn).
      specialize (Hmono n cur). lia.
  Qed.
End WalkFacts.

(* day / week resolutions satisfy the hypotheses for every date (no range bound) *)
Lemma day_step_up q : 1 <= q -> forall x, x < delta (RDay q) false x.
Proof. intros Hq x. cbn. lia. Qed.
Lemma day_back_down q : 1 <= q -> forall x, delta (RDay q) true x < x.
Proof. intros Hq x. cbn. lia. Qed.
Lemma day_step_back q x : delta (RDay q) false (delta (RDay q) true x) = x.
Proof. cbn. lia. Qed.
Lemma day_iter_step q n x : iter n (delta (RDay q) false) x = x + Z.of_nat n * q.
Proof. induction n as [|n IH]; [cbn; lia|]. cbn [iter]. rewrite IH. cbn [delta]. lia. Qed.
Lemma day_iter_back q n x : iter n (delta (RDay q) true) x = x - Z.of_nat n * q.
Proof. induction n as [|n IH]; [cbn; lia|]. cbn [iter]. rewrite IH. cbn [delta]. lia. Qed.

(* the fuel handed over by the model suffices *)
Lemma walk_fuel_enough origin first last :
  Z.abs (first - origin) + 2 < Z.of_nat (walk_fuel origin first last).
Proof. unfold walk_fuel. lia. Qed.

(* day units: the aligned start is origin + k*q (k in Z), strictly before `first`, and the window
   (c, c+q] holds `first` *)
Theorem align_days q origin first last :
  1 <= q ->
  exists c k, align (delta (RDay q) false) (delta (RDay q) true) (walk_fuel origin first last) origin first = Some c /\
              c = origin + k * q /\ c < first <= c + q.
Proof.
  intros Hq.
  destruct (align_spec _ _ (day_step_up q Hq) (day_back_down q Hq) (day_step_back q)
              (walk_fuel origin first last) origin first (walk_fuel_enough _ _ _))
    as (c & n & E & O & A & B).
  cbn [delta] in B. destruct O as [->| ->].
  - exists (iter n (delta (RDay q) false) origin), (Z.of_nat n). rewrite day_iter_step in *. repeat split; auto; lia.
  - exists (iter n (delta (RDay q) true) origin), (- Z.of_nat n). rewrite day_iter_back in *. repeat split; auto; lia.
Qed.

(* ================================================================== 2. relabelling and refusal *)
Section RelabelFacts.
  Variable step : Z -> Z.

  (* relabel keeps evaluation date, metadata and values, cell by cell *)
  Lemma relabel_map fuel : forall init cells out,
    relabel step fuel init cells = Ok out ->
    Forall2 (fun c o => ev o = ev c /\ cmeta o = cmeta c /\ cvals o = cvals c /\ ckind o = KCell /\ prev o = None /\
                        exists g, ps o = g + 1 /\ pe o = step g /\ pe c <= step g) cells out.
  Proof.
    intros init cells. revert init. induction cells as [|c r IH]; intros init out; cbn [relabel].
    - intros H. inversion H. constructor.
    - destruct (walk_up step fuel init (ps c)) as [i'|]; [|discriminate].
      destruct (step i' <? pe c) eqn:E; [discriminate|].
      destruct (relabel step fuel i' r) as [rest|] eqn:Er; [|discriminate].
      intros H. inversion H. subst. constructor; [|eauto]. cbn. repeat split; auto. exists i'. repeat split; auto. lia.
  Qed.

  (* a period reaching beyond the end of the window that holds its start is refused: every error
     other than fuel exhaustion is TriangleError, and a relabelled list never contains a straddler *)
  Lemma relabel_err fuel : forall init cells e,
    relabel step fuel init cells = Err e -> e = TriangleError \/ e = OtherError.
  Proof.
    intros init cells. revert init. induction cells as [|c r IH]; intros init e; cbn [relabel]; [discriminate|].
    destruct (walk_up step fuel init (ps c)) as [i'|]; [|intros H; inversion H; auto].
    destruct (step i' <? pe c); [intros H; inversion H; auto|].
    destruct (relabel step fuel i' r) eqn:Er; [discriminate|]. intros H. inversion H. subst. eauto.
  Qed.
  Lemma relabel_straddle fuel init c r i' :
    walk_up step fuel init (ps c) = Some i' -> step i' < pe c ->
    relabel step fuel init (c :: r) = Err TriangleError.
  Proof. intros E H. cbn [relabel]. rewrite E. destruct (step i' <? pe c) eqn:E'; [reflexivity | lia]. Qed.
End RelabelFacts.

Lemma zsum_all_zero {X} (f : X -> Z) l : (forall x, In x l -> f x = 0) -> zsum (map f l) = 0.
Proof.
  induction l as [|x l IH]; intros H; [reflexivity|]. cbn [map zsum].
  rewrite (H x (or_introl eq_refl)), IH; [reflexivity|]. intros y Hy. apply H. now right.
Qed.

(* sorted(cells, key=coordinates) permutes *)
Lemma coord_insert_sum (f : cell -> Z) x l : zsum (map f (coord_insert x l)) = f x + zsum (map f l).
Proof.
  induction l as [|y l IH]; cbn [coord_insert map zsum]; [reflexivity|].
  destruct (coord_ltb y x); cbn [map zsum]; [|reflexivity]. rewrite IH. lia.
Qed.
Lemma sort_coords_sum (f : cell -> Z) l : zsum (map f (sort_coords l)) = zsum (map f l).
Proof.
  unfold sort_coords. induction l as [|x l IH]; cbn [fold_right map zsum]; [reflexivity|].
  rewrite coord_insert_sum, IH. reflexivity.
Qed.

(* ================================================================== 3. one cell per window and evaluation date; sums *)
Section PeriodFacts.
  Variable wavg : transform -> list value -> list value -> result value.
  Variable rules : rule_table.
  Variable nl : list str.
  Notation scv := (summarize_cell_values wavg rules nl).

  (* group-level: a Sum rule bound to its own key *)
  Lemma scv_sum_entry prem g vals k v :
    scv prem g = Ok vals -> g <> [] -> In (k, v) vals ->
    lookup_rule rules k = Some (RSum k) -> (prem = true \/ mem_str k nl = false) ->
    conforming_sum (raw k g) = Ok v.
  Proof.
    intros Ev Hne Hkv Hl Hp. destruct prem.
    - destruct (scv_true_entry _ _ _ _ _ Ev) as [Ek Hall]. destruct (Hall _ _ Hkv) as (r & Er & Ee).
      rewrite Hl in Er. inversion Er. subst r. eapply eval_rule_sum; [|exact Ee].
      rewrite <- Ek. apply (in_map fst) in Hkv. exact Hkv.
    - destruct Hp as [Hp|Hp]; [discriminate|]. destruct g as [|c g']; [congruence|].
      destruct (scv_false_entry _ _ _ _ _ _ Ev) as [Ek Hall]. destruct (Hall _ _ Hkv) as [(_ & r & Er & Ee)|(Hn & _)].
      + rewrite Hl in Er. inversion Er. subst r. eapply eval_rule_sum; [|exact Ee].
        assert (In k (keys vals)) as Hk by (apply (in_map fst) in Hkv; exact Hkv).
        rewrite Ek, in_app_iff, !filter_In in Hk. tauto.
      + congruence.
  Qed.
  Lemma scv_keys prem g vals :
    scv prem g = Ok vals -> g <> [] ->
    NoDup (keys vals) /\ forall k, In k (keys vals) <-> In k (union_keys g).
  Proof.
    intros Ev Hne. destruct prem.
    - destruct (scv_true_entry _ _ _ _ _ Ev) as [-> _]. split; [apply nodup_str_NoDup | reflexivity].
    - destruct g as [|c g']; [congruence|].
      destruct (scv_false_entry _ _ _ _ _ _ Ev) as [-> _]. split.
      + apply NoDup_app_intro; try (apply NoDup_filter; apply nodup_str_NoDup).
        intros x. rewrite !filter_In. intros [_ A] [_ B]. rewrite B in A. discriminate.
      + intros k. rewrite in_app_iff, !filter_In. destruct (mem_str k nl); cbn [negb]; intuition congruence.
  Qed.

  (* the grouping step of _aggregate_period on ANY list of (relabelled) cells *)
  Definition window_rel (prem : bool) (g : coord * list cell) (o : cell) : Prop :=
    exists c0 r vals, snd g = c0 :: r /\ scv prem (snd g) = Ok vals /\
                      o = mkCell KCum (ps c0) (pe c0) (ev c0) None (cmeta c0) vals.
  Lemma window_cell_inv prem g o : window_cell wavg rules nl prem g = Ok o -> window_rel prem g o.
  Proof.
    unfold window_cell, window_rel. destruct (snd g) as [|c0 r] eqn:Eg; [discriminate|].
    destruct (scv prem (c0 :: r)) as [vals|] eqn:Ev; [|discriminate]. intros H. inversion H. eauto 6.
  Qed.

  Lemma group_member_key (l : list cell) k g c :
    In (k, g) (groupby coord_eqb coord3 l) -> In c g -> coord3 c = k /\ In c l.
  Proof.
    intros Hg Hc. destruct (groupby_In coord_eqb coord3 coord_eqb_eq _ _ _ Hg) as [-> _].
    unfold members in Hc. apply filter_In in Hc. destruct Hc as [Hl E]. apply coord_eqb_eq in E. auto.
  Qed.

  (* exactly one output cell per distinct (window, evaluation date); it carries the group's metadata
     and the summarised values of exactly the cells relabelled to that window and evaluation date *)
  Theorem windows_one_cell_each prem l out :
    map_result (window_cell wavg rules nl prem) (groupby coord_eqb coord3 l) = Ok out ->
    map coord3 out = dedupe coord_eqb (map coord3 l) /\
    forall o, In o out ->
      let g := members coord_eqb coord3 l (coord3 o) in
      ckind o = KCum /\ (exists c0 r, g = c0 :: r /\ cmeta o = cmeta c0) /\ scv prem g = Ok (cvals o).
  Proof.
    intros H. apply map_result_Ok in H.
    assert (Hkey : forall g o, In g (groupby coord_eqb coord3 l) -> window_cell wavg rules nl prem g = Ok o ->
                               coord3 o = fst g).
    { intros [k g] o Hg Ho. apply window_cell_inv in Ho. destruct Ho as (c0 & r & vals & Eg & _ & ->).
      cbn [fst snd] in *. destruct (group_member_key l k g c0 Hg) as [E _]; [rewrite Eg; now left|].
      exact E. }
    split.
    - rewrite <- (groupby_keys coord_eqb coord3 coord_eqb_eq).
      apply (Forall2_map_eq _ _ _ _ _ H). intros g o Hg Ho. now apply Hkey.
    - intros o Ho. destruct (Forall2_In_r _ _ _ _ H Ho) as ([k g] & Hg & Hw).
      pose proof (Hkey _ _ Hg Hw) as Ek. cbn [fst] in Ek. rewrite Ek.
      destruct (groupby_In coord_eqb coord3 coord_eqb_eq _ _ _ Hg) as [-> _].
      apply window_cell_inv in Hw. destruct Hw as (c0 & r & vals & Eg & Ev & ->). cbn [snd] in *.
      cbn. repeat split; eauto.
  Qed.

  (* conservation per evaluation date: the total of a summed field over the output cells of
     evaluation date e equals its total over the input cells of evaluation date e *)
  Definition total_at (e : Z) (i : nat) (k : str) (cells : list cell) : Z :=
    zsum (map (fun c => if ev c =? e then vmeas i (getv k c) else 0) cells).

  Theorem windows_conserve prem l out k i e :
    map_result (window_cell wavg rules nl prem) (groupby coord_eqb coord3 l) = Ok out ->
    lookup_rule rules k = Some (RSum k) -> (prem = true \/ mem_str k nl = false) ->
    (forall o, In o out -> in_range i (getv k o)) ->
    total_at e i k out = total_at e i k l.
  Proof.
    intros H Hl Hp Hr. unfold total_at at 2.
    rewrite <- (zsum_groupby coord_eqb coord3 coord_eqb_eq (fun c => if ev c =? e then vmeas i (getv k c) else 0) l).
    pose proof (map_result_Ok _ _ _ H) as F. unfold total_at. f_equal.
    apply (Forall2_map_eq _ _ _ _ _ F). intros [k0 g] o Hg Hw. cbn [snd].
    assert (Hin : In o out).
    { clear -F Hg Hw. induction F as [|a b l' out' Hab F IH]; [destruct Hg|].
      destruct Hg as [->|Hg]; [rewrite Hw in Hab; inversion Hab; now left | right; auto]. }
    apply window_cell_inv in Hw. destruct Hw as (c0 & r & vals & Eg & Ev & Eo). cbn [snd] in *.
    assert (Hev : forall c, In c g -> ev c = ev o).
    { intros c Hc. destruct (group_member_key l k0 g c Hg Hc) as [E1 _].
      destruct (group_member_key l k0 g c0 Hg) as [E2 _]; [rewrite Eg; now left|].
      subst o. cbn [ev]. unfold coord3 in E1, E2. congruence. }
    assert (Hsum : vmeas i (getv k o) = zsum (map (fun c => vmeas i (getv k c)) g)).
    { assert (Hne : g <> []) by (rewrite Eg; discriminate).
      destruct (scv_keys _ _ _ Ev Hne) as [Hnd Hkeys].
      specialize (Hr o Hin). subst o. unfold getv at 1 in Hr. unfold getv at 1. cbn [cvals] in *.
      destruct (assoc k vals) as [v|] eqn:Ea.
      - pose proof (scv_sum_entry _ _ _ _ _ Ev Hne (assoc_In _ _ _ Ea) Hl Hp) as Hs.
        rewrite (conforming_sum_meas i _ _ Hs Hr). unfold raw. now rewrite map_map.
      - cbn [vmeas]. symmetry. change (field_total i k g = 0); apply absent_total. rewrite <- Hkeys. now apply assoc_None_keys. }
    destruct (ev o =? e) eqn:Ee.
    - rewrite Hsum. f_equal. apply map_ext_in. intros c Hc. rewrite (Hev c Hc), Ee. reflexivity.
    - symmetry. apply zsum_all_zero. intros c Hc. rewrite (Hev c Hc), Ee. reflexivity.
  Qed.
End PeriodFacts.

(* ================================================================== 4. window assignment *)
Section WindowFacts.
  Variable step : Z -> Z.
  Hypothesis step_up : forall x, x < step x.

  (* soundness of the advance loop, whatever the fuel *)
  Lemma walk_up_sound : forall fuel cur first c,
    walk_up step fuel cur first = Some c ->
    exists n, c = iter n step cur /\ first <= step c /\ (cur < first -> c < first) /\ cur <= c.
  Proof.
    induction fuel as [|f IH]; intros cur first c; cbn [walk_up]; [discriminate|].
    destruct (step cur <? first) eqn:E.
    - intros H. destruct (IH _ _ _ H) as (n & E1 & A & B & C). pose proof (step_up cur).
      exists (S n). rewrite iter_succ_r. repeat split; auto; try lia; try (intros _; apply B; lia).
    - intros H. inversion H. subst. exists O. cbn. repeat split; auto; lia.
  Qed.

  Fixpoint ps_nondecr (l : list cell) : Prop :=
    match l with
    | c1 :: ((c2 :: _) as r) => ps c1 <= ps c2 /\ ps_nondecr r
    | _ => True
    end.

  Lemma ps_nondecr_head : forall r c, ps_nondecr (c :: r) -> forall c', In c' r -> ps c <= ps c'.
  Proof.
    induction r as [|c2 r IH]; intros c Hs c' Hc'; [destruct Hc'|]. destruct Hs as [Hle Hs].
    destruct Hc' as [->|Hc']; [exact Hle|]. specialize (IH c2 Hs c' Hc'). lia.
  Qed.

  (* every cell of a period-sorted list is relabelled with the window (g, step g] of the grid
     (g = step^n init) that holds its period start, and its period end lies inside that window *)
  Theorem relabel_windows fuel : forall cells init out,
    relabel step fuel init cells = Ok out -> ps_nondecr cells ->
    (forall c, In c cells -> init < ps c) ->
    Forall2 (fun c o => exists n, let g := iter n step init in
                        ps o = g + 1 /\ pe o = step g /\ g < ps c <= step g /\ pe c <= step g /\
                        ev o = ev c /\ cmeta o = cmeta c /\ cvals o = cvals c) cells out.
  Proof.
    induction cells as [|c r IH]; intros init out; cbn [relabel].
    - intros H _ _. inversion H. constructor.
    - destruct (walk_up step fuel init (ps c)) as [i'|] eqn:Ew; [|discriminate].
      destruct (step i' <? pe c) eqn:E; [discriminate|].
      destruct (relabel step fuel i' r) as [rest|] eqn:Er; [|discriminate].
      intros H Hs Hi. inversion H. subst out. clear H.
      destruct (walk_up_sound _ _ _ _ Ew) as (n & En & A & B & C).
      specialize (B (Hi c (or_introl eq_refl))).
      constructor.
      + exists n. cbv zeta. rewrite <- En. cbn. repeat split; auto; lia.
      + assert (Hs' : ps_nondecr r) by (destruct r; [exact I | apply Hs]).
        assert (Hi' : forall c', In c' r -> i' < ps c').
        { intros c' Hc'. pose proof (ps_nondecr_head _ _ Hs c' Hc'). lia. }
        specialize (IH i' rest Er Hs' Hi').
        eapply Forall2_weaken; [|exact IH]. intros c' o' (m & Hm). cbv zeta in Hm.
        exists (m + n)%nat. cbv zeta.
        assert (iter (m + n) step init = iter m step i') as ->; [|exact Hm].
        rewrite En. clear. induction m as [|m IHm]; [reflexivity|]. cbn [Nat.add iter]. now rewrite IHm.
  Qed.
End WindowFacts.

(* ================================================================== 5. month grid (bounded) *)
(* month ids 0..1571 = 1970-01 .. 2100-12 *)
Fixpoint all_ids (n : nat) (i : Z) (p : Z -> bool) : bool :=
  match n with O => true | S k => p i && all_ids k (i + 1) p end.
Lemma all_ids_spec n : forall i p, all_ids n i p = true -> forall j, i <= j < i + Z.of_nat n -> p j = true.
Proof.
  induction n as [|n IH]; intros i p H j Hj; [lia|]. cbn [all_ids] in H. apply andb_prop in H. destruct H as [H0 H].
  destruct (Z.eq_dec j i) as [->|Hne]; [exact H0|]. apply (IH (i + 1) p H). lia.
Qed.
Definition month_id_ok (i : Z) : bool :=
  (month_id (month_end i) =? i) && is_month_end (month_end i) && (month_end i <? month_end (i + 1))
  && (month_id (month_start i) =? i) && (month_start i <=? month_end i).
Lemma month_ids_ok : all_ids 1572 0 month_id_ok = true.
Proof. vm_compute. reflexivity. Qed.

Lemma month_end_facts i : 0 <= i <= 1571 ->
  month_id (month_end i) = i /\ is_month_end (month_end i) = true /\ month_end i < month_end (i + 1)
  /\ month_id (month_start i) = i /\ month_start i <= month_end i.
Proof.
  intros Hi. pose proof (all_ids_spec _ _ _ month_ids_ok i ltac:(lia)) as H. unfold month_id_ok in H.
  rewrite !andb_true_iff in H. lia.
Qed.
(* resolution_delta on a month end of 1970-2100 is the month end k months later *)
Theorem addm_month_end i k : 0 <= i <= 1571 -> addm (month_end i) k = month_end (i + k).
Proof.
  intros Hi. destruct (month_end_facts i Hi) as (E1 & E2 & _). unfold addm. now rewrite E1, E2.
Qed.
Theorem month_end_increasing i j : 0 <= i -> j <= 1572 -> i < j -> month_end i < month_end j.
Proof.
  intros Hi Hj Hlt. replace j with (i + 1 + Z.of_nat (Z.to_nat (j - i - 1))) by lia.
  assert (Hb : i + 1 + Z.of_nat (Z.to_nat (j - i - 1)) <= 1572) by lia. revert Hb.
  generalize (Z.to_nat (j - i - 1)). intros n. induction n as [|n IH]; intros Hb.
  - replace (i + 1 + Z.of_nat 0) with (i + 1) by lia. apply month_end_facts. lia.
  - specialize (IH ltac:(lia)).
    pose proof (month_end_facts (i + 1 + Z.of_nat n) ltac:(lia)) as (_ & _ & H & _).
    replace (i + 1 + Z.of_nat (S n)) with (i + 1 + Z.of_nat n + 1) by lia. lia.
Qed.
(* consecutive windows: the window after month end i of length q months is
   [month_start (i+1), month_end (i+q)] = [month_end i + 1 day, addm (month_end i) q] *)
Theorem month_window i q : 0 <= i <= 1571 -> 1 <= q ->
  delta (RMonth q) false (month_end i) = month_end (i + q) /\
  delta (RMonth q) true (month_end i) = month_end (i - q) /\
  month_end i + 1 = month_start (i + 1).
Proof.
  intros Hi Hq. cbn [delta]. rewrite !addm_month_end by lia. repeat split; try (f_equal; lia).
  unfold month_end. lia.
Qed.

(* ================================================================== 6. sorted(cells, key=coordinates) *)
Definition cle (a b : cell) : Prop := coord_ltb b a = false.
Fixpoint cle_sorted (l : list cell) : Prop :=
  match l with
  | c1 :: ((c2 :: _) as r) => cle c1 c2 /\ cle_sorted r
  | _ => True
  end.
Lemma coord_ltb_asym a b : coord_ltb a b = true -> coord_ltb b a = false.
Proof. unfold coord_ltb. lia. Qed.
Lemma coord_insert_sorted x : forall l, cle_sorted l -> cle_sorted (coord_insert x l).
Proof.
  induction l as [|y l IH]; intros Hs; [exact I|]. cbn [coord_insert].
  destruct (coord_ltb y x) eqn:E.
  - (* y stays first, x goes somewhere behind it *)
    destruct l as [|z l'].
    + cbn [coord_insert]. split; [now apply coord_ltb_asym | exact I].
    + destruct Hs as [Hyz Hs]. specialize (IH Hs). cbn [coord_insert] in IH |- *.
      destruct (coord_ltb z x) eqn:E2.
      * split; [exact Hyz | exact IH].
      * split; [now apply coord_ltb_asym | exact IH].
  - split; [exact E | exact Hs].
Qed.
Lemma sort_coords_sorted l : cle_sorted (sort_coords l).
Proof. unfold sort_coords. induction l as [|x l IH]; [exact I|]. cbn [fold_right]. now apply coord_insert_sorted. Qed.
Lemma cle_sorted_ps : forall l, cle_sorted l -> ps_nondecr l.
Proof.
  induction l as [|a l IH]; intros H; [exact I|]. destruct l as [|b l']; [exact I|].
  destruct H as [Hab H]. split; [|now apply IH]. unfold cle, coord_ltb in Hab. lia.
Qed.
Theorem sort_coords_ps_nondecr l : ps_nondecr (sort_coords l).
Proof. apply cle_sorted_ps, sort_coords_sorted. Qed.
Lemma coord_insert_In x c l : In c (coord_insert x l) <-> c = x \/ In c l.
Proof.
  induction l as [|y l IH]; cbn [coord_insert In]; [intuition|].
  destruct (coord_ltb y x); cbn [In]; [|intuition]. rewrite IH. intuition.
Qed.
Lemma sort_coords_In c l : In c (sort_coords l) <-> In c l.
Proof.
  unfold sort_coords. induction l as [|x l IH]; [reflexivity|]. cbn [fold_right In].
  rewrite coord_insert_In, IH. intuition.
Qed.

(* ================================================================== 7. _aggregate_period as a whole *)
Section PeriodSpec.
  Variable wavg : transform -> list value -> list value -> result value.
  Variable rules : rule_table.
  Variable nl : list str.
  Variable r : resolution.
  Hypothesis step_up : forall x, x < delta r false x.
  Hypothesis back_down : forall x, delta r true x < x.
  Hypothesis step_back : forall x, delta r false (delta r true x) = x.

  Definition window_assignment (init : Z) (c o : cell) : Prop :=
    exists n, let g := iter n (delta r false) init in
      ps o = g + 1 /\ pe o = delta r false g /\ g < ps c <= delta r false g /\ pe c <= delta r false g /\
      ev o = ev c /\ cmeta o = cmeta c /\ cvals o = cvals c.

  Theorem aggregate_period_spec origin prem cells out :
    aggregate_period wavg rules nl (Some r) origin prem cells = Ok out ->
    exists init relabelled,
      (exists n, init = iter n (delta r false) origin \/ init = iter n (delta r true) origin) /\
      Forall2 (window_assignment init) (sort_coords cells) relabelled /\
      map_result (window_cell wavg rules nl prem) (groupby coord_eqb coord3 relabelled) = Ok out.
  Proof.
    unfold aggregate_period. destruct cells as [|x xs].
    { intros H. inversion H. exists origin, []. split; [exists O; now left|]. split; [constructor | reflexivity]. }
    pose proof (sort_coords_ps_nondecr (x :: xs)) as Hs.
    destruct (sort_coords (x :: xs)) as [|c0 rest] eqn:Esort; [discriminate|].
    set (fuel := walk_fuel origin (ps c0) (zmax_list (ps c0) (map ps (c0 :: rest)))).
    destruct (align_spec _ _ step_up back_down step_back fuel origin (ps c0) (walk_fuel_enough _ _ _))
      as (init & n & Ea & Orb & A & B).
    rewrite Ea. destruct (relabel (delta r false) fuel init (c0 :: rest)) as [relabelled|] eqn:Er; [|discriminate].
    intros H. exists init, relabelled. split; [eauto|]. split; [|exact H].
    apply (relabel_windows _ step_up fuel _ _ _ Er Hs).
    intros c [<-|Hc]; [exact A|]. pose proof (ps_nondecr_head _ _ Hs c Hc). lia.
  Qed.

  (* where an error of _aggregate_period can come from (an empty slice is returned unchanged): a
     period reaching beyond its window (TriangleError), summarising a group, or -- model only -- fuel
     exhaustion in the per-cell advance loop (the alignment loops provably never exhaust it) *)
  Theorem aggregate_period_errors origin prem cells e :
    aggregate_period wavg rules nl (Some r) origin prem cells = Err e ->
    e = TriangleError \/ e = OtherError \/
    (exists relabelled, map_result (window_cell wavg rules nl prem) (groupby coord_eqb coord3 relabelled) = Err e).
  Proof.
    unfold aggregate_period. destruct cells as [|x l]; [discriminate|].
    destruct (sort_coords (x :: l)) as [|c0 rest] eqn:Esort.
    - exfalso. assert (In x (sort_coords (x :: l))) as Hx by (apply sort_coords_In; now left).
      rewrite Esort in Hx. destruct Hx.
    - set (fuel := walk_fuel origin (ps c0) (zmax_list (ps c0) (map ps (c0 :: rest)))).
      destruct (align_spec _ _ step_up back_down step_back fuel origin (ps c0) (walk_fuel_enough _ _ _))
        as (init & n & Ea & _). rewrite Ea.
      destruct (relabel (delta r false) fuel init (c0 :: rest)) as [relabelled|e'] eqn:Er.
      + intros H. right. right. eauto.
      + intros H. inversion H. subst e'. destruct (relabel_err _ _ _ _ _ Er) as [->| ->]; auto.
  Qed.
End PeriodSpec.

(* ================================================================== 8. incremental triangles, evaluation-only *)
Theorem aggregate_incremental wavg rules nl a t :
  is_incremental t = true ->
  aggregate wavg rules nl a t
  = bind (to_cumulative std_desc t) (fun cum => bind (aggregate wavg rules nl a cum) (to_incremental std_desc))
  \/ exists cum, to_cumulative std_desc t = Ok cum /\ is_incremental cum = true.
Proof.
  intros Hi. unfold aggregate at 1. rewrite Hi.
  destruct (to_cumulative std_desc t) as [cum|e] eqn:Ec; cbn [bind]; [|now left].
  destruct (is_incremental cum) eqn:Ei; [right; eauto|]. left. unfold aggregate. now rewrite Ei.
Qed.
Theorem aggregate_period_empty wavg rules nl r origin prem :
  aggregate_period wavg rules nl r origin prem [] = Ok [].
Proof. destruct r; reflexivity. Qed.
Theorem aggregate_empty wavg rules nl a : aggregate wavg rules nl a [] = Ok [].
Proof. reflexivity. Qed.
Theorem aggregate_eval_only wavg rules nl a slice :
  period_res a = None ->
  aggregate_slice wavg rules nl a slice = aggregate_eval (eval_res a) (eval_origin a) slice.
Proof.
  intros Hp. unfold aggregate_slice. destruct (aggregate_eval (eval_res a) (eval_origin a) slice); [|reflexivity].
  unfold aggregate_period. now rewrite Hp.
Qed.
Theorem aggregate_eval_filters r origin c0 cells out :
  aggregate_eval (Some r) origin (c0 :: cells) = Ok out ->
  exists valid, valid_evals r origin (zmin_list (ev c0) (map ev (c0 :: cells))) (zmax_list (ev c0) (map ev (c0 :: cells))) = Some valid /\
                out = filter (fun c => existsb (Z.eqb (ev c)) valid) (c0 :: cells).
Proof.
  unfold aggregate_eval. destruct (valid_evals _ _ _ _) as [valid|]; [|discriminate].
  intros H. inversion H. eauto.
Qed.
