(** C18 -- lemmas about Model/Units.v (part 2: convert_currency, accident_quarter_to_policy_year,
    disaggregate_experience) *)
From Coq Require Import ZArith QArith Qabs List Bool Lia Lqa Arith.
From Bermuda Require Import Model.Base Lib.Calendar Model.Blend Model.Units Proofs.BlendP Proofs.UnitsP.
Import ListNotations.
Local Open Scope Q_scope.

(* ================================================================== convert_currency *)
(* what one output cell must look like *)
Definition field_rel (cf : list str) (r : rate) (kv : str * value) (ku : str * uval) : Prop :=
  fst ku = fst kv /\
  if mem_str (fst kv) cf then scale_value r (snd kv) = Ok (snd ku) else snd ku = UKeep (snd kv).
Definition same_but_currency (target : str) (c h : cell) : Prop :=
  ckind h = ckind c /\ ps h = ps c /\ pe h = pe c /\ ev h = ev c /\ prev h = prev c /\
  cmeta h = set_currency (cmeta c) target.
Definition conv_rel (cf : list str) (target : str) (rates : list (str * rate)) (c : cell) (o : ucell) : Prop :=
  same_but_currency target c (uhdr o) /\
  exists cur, currency (cmeta c) = Some cur /\
    ((cur = target /\ uvals o = map (fun kv => (fst kv, UKeep (snd kv))) (cvals c)) \/
     (cur <> target /\ exists r, assoc cur rates = Some r /\ Forall2 (field_rel cf r) (cvals c) (uvals o))).

Lemma set_currency_same m t : currency m = Some t -> set_currency m t = m.
Proof. destruct m. simpl. intro H. subst. reflexivity. Qed.

Lemma convert_cell_spec cf r target c o :
  convert_cell cf r target c = Ok o ->
  same_but_currency target c (uhdr o) /\ Forall2 (field_rel cf r) (cvals c) (uvals o).
Proof.
  unfold convert_cell. intro H. apply bind_ok in H. destruct H as [vs [Hm H]]. inversion H. subst o. clear H.
  split; [unfold same_but_currency; simpl; auto 10|]. simpl.
  apply map_result_spec in Hm. induction Hm as [|kv ku l l' Hk Hm IH]; constructor; auto.
  unfold field_rel. destruct (mem_str (fst kv) cf).
  - apply bind_ok in Hk. destruct Hk as [u [Hu Hk]]. inversion Hk. simpl. auto.
  - inversion Hk. simpl. auto.
Qed.

Lemma convert_currency_spec cf target rates cells out :
  convert_currency cf target rates cells = Ok out -> Forall2 (conv_rel cf target rates) cells out.
Proof.
  unfold convert_currency. intro H. apply map_result_spec in H.
  induction H as [|c o l l' Hc H IH]; constructor; auto.
  destruct (currency (cmeta c)) as [cur|] eqn:Ecur; [|discriminate].
  destruct (str_eqb cur target) eqn:Et.
  - inversion Hc. subst o. apply str_eqb_eq in Et. subst cur. split.
    + unfold same_but_currency, keep_cell, hdr. simpl. rewrite (set_currency_same _ _ Ecur). auto 10.
    + exists target. split; auto.
  - destruct (assoc cur rates) as [r|] eqn:Er; [|discriminate].
    apply convert_cell_spec in Hc. destruct Hc as [H1 H2]. split; auto.
    exists cur. split; auto. right. split; [|eauto].
    intro. subst. rewrite str_eqb_refl in Et. discriminate.
Qed.

Lemma Forall2_length' {A B} (R : A -> B -> Prop) l l' : Forall2 R l l' -> length l = length l'.
Proof. induction 1; simpl; auto. Qed.

(* refusals *)
Lemma map_result_err_class {A B} (f : A -> result B) e l :
  (forall a e', In a l -> f a = Err e' -> e' = e) ->
  (exists a, In a l /\ exists e', f a = Err e') -> map_result f l = Err e.
Proof.
  induction l as [|x l IH]; intros Hc [a [Hin [e' He]]]; [destruct Hin|].
  simpl. destruct (f x) as [b|ex] eqn:Ex.
  - simpl. destruct Hin as [Hin|Hin]; [subst; congruence|].
    rewrite IH; auto.
    + intros a0 e0 Ha0. apply Hc. right. exact Ha0.
    + eauto.
  - simpl. f_equal. apply (Hc x ex); auto. left. reflexivity.
Qed.
Definition no_none_values (c : cell) : Prop := Forall (fun kv => snd kv <> VNone) (cvals c).
Lemma convert_cell_no_error cf r target c e :
  no_none_values c -> convert_cell cf r target c <> Err e.
Proof.
  unfold convert_cell, no_none_values. intros Hn.
  assert (exists vs, map_result (fun kv : str * value =>
            if mem_str (fst kv) cf then bind (scale_value r (snd kv)) (fun u => Ok (fst kv, u))
            else Ok (fst kv, UKeep (snd kv))) (cvals c) = Ok vs) as [vs Hvs].
  { induction Hn as [|kv l Hkv Hn IH]; simpl; [eauto|]. destruct IH as [vs IH].
    destruct (mem_str (fst kv) cf).
    - destruct (snd kv) eqn:Ev; try congruence; simpl; rewrite IH; simpl; eauto.
    - simpl. rewrite IH. simpl. eauto. }
  rewrite Hvs. simpl. discriminate.
Qed.
Lemma convert_currency_refuses cf target rates cells :
  Forall no_none_values cells ->
  Exists (fun c => match currency (cmeta c) with
                   | None => True
                   | Some cur => cur <> target /\ assoc cur rates = None
                   end) cells ->
  convert_currency cf target rates cells = Err ValueError.
Proof.
  intros Hn Hex. unfold convert_currency. apply map_result_err_class.
  - intros c e' Hin. rewrite Forall_forall in Hn. specialize (Hn c Hin).
    destruct (currency (cmeta c)) as [cur|]; [|congruence].
    destruct (str_eqb cur target); [discriminate|].
    destruct (assoc cur rates) as [r|]; [|congruence].
    intro H. exfalso. exact (convert_cell_no_error _ _ _ _ _ Hn H).
  - apply Exists_exists in Hex. destruct Hex as [c [Hin Hc]]. exists c. split; auto.
    destruct (currency (cmeta c)) as [cur|]; [|eauto]. destruct Hc as [Hne Hr].
    destruct (str_eqb cur target) eqn:Et; [apply str_eqb_eq in Et; contradiction|]. rewrite Hr. eauto.
Qed.

(* ================================================================== accident_quarter_to_policy_year *)
Definition amount (c : cell) (f : str) (k : nat) : Q :=
  match field_samples c f with Some v => pick v k | None => 0 end.
(* total of sample k of field f over the accident-quarter cells evaluated at evd *)
Definition in_amount (cells : list cell) (evd : date) (f : str) (k : nat) : Q :=
  qsum (map (fun c => amount c f k) (cells_at evd cells)).
(* total over all policy years of what they receive *)
Definition out_amount (ep : share_table) (cells : list cell) (evd : date) (f : str) (k : nat) : Q :=
  qsum (map (fun e => qsum (map (contrib ep (snd e) f k) (cells_at evd cells))) ep).

Lemma nshare_none ep aq tbl : passoc aq tbl = None -> nshare ep aq tbl == 0.
Proof. intro H. unfold nshare, raw_or_0. rewrite H, Qred_correct. unfold Qdiv. ring. Qed.
Lemma contrib_eq ep tbl f k c : contrib ep tbl f k c == amount c f k * nshare ep (cperiod c) tbl.
Proof.
  unfold contrib, amount, has_share. destruct (passoc (cperiod c) tbl) eqn:E.
  - destruct (field_samples c f); [reflexivity|ring].
  - rewrite (nshare_none _ _ _ E). ring.
Qed.
Lemma nshare_total ep aq : ~ total_share ep aq == 0 -> qsum (map (fun e => nshare ep aq (snd e)) ep) == 1.
Proof.
  intro H. unfold nshare.
  assert (E : forall l, qsum (map (fun e : period * list (period * Q) => Qred (raw_or_0 aq (snd e) / total_share ep aq)) l)
              == qsum (map (fun e => raw_or_0 aq (snd e)) l) / total_share ep aq).
  { induction l as [|x l IH]; cbn [map qsum]; [field; exact H|]. rewrite Qred_correct, IH. field. exact H. }
  rewrite E. unfold total_share. field. exact H.
Qed.
(* conservation: if every accident quarter evaluated at evd has a non-zero total share, the policy years
   together receive exactly the accident quarters' total, for every field and sample *)
Lemma aq_conservation ep cells evd f k :
  (forall c, In c (cells_at evd cells) -> ~ total_share ep (cperiod c) == 0) ->
  out_amount ep cells evd f k == in_amount cells evd f k.
Proof.
  intro H. unfold out_amount, in_amount. rewrite qsum_swap. apply qsum_map_ext. intros c Hc.
  rewrite (qsum_map_ext _ (fun e => amount c f k * nshare ep (cperiod c) (snd e))) by (intros; apply contrib_eq).
  rewrite (qsum_map_ext _ (fun e => nshare ep (cperiod c) (snd e) * amount c f k)) by (intros; ring).
  rewrite qsum_map_scale, (nshare_total ep (cperiod c) (H c Hc)). ring.
Qed.

(* the values of an emitted policy-year cell are those sums *)
Lemma nth_map_seq0 {A} (f : nat -> A) n k d : (k < n)%nat -> nth k (map f (seq 0 n)) d = f k.
Proof.
  intro H. rewrite (nth_indep _ d (f 0%nat)) by (rewrite map_length, seq_length; auto).
  rewrite (map_nth f (seq 0 n) 0%nat k). rewrite seq_nth by auto. reflexivity.
Qed.
Definition usample (k : nat) (u : uval) : Q :=
  match u with UNum _ q => nth k [q] 0 | UArr _ qs => nth k qs 0 | _ => 0 end.
Definition ulen (u : uval) : nat := match u with UNum _ _ => 1%nat | UArr _ qs => length qs | _ => O end.
Lemma py_value_sample ep tbl cs f u :
  py_value ep tbl cs f = Ok u ->
  forall k, (k < ulen u)%nat -> usample k u = qsum (map (contrib ep tbl f k) cs).
Proof.
  unfold py_value.
  destruct (all_some (map (fun c => field_samples c f) (filter _ cs))) as [vs|]; [|discriminate].
  destruct (forallb (fun v => (length v =? max_len vs)%nat || (length v =? 1)%nat) vs); simpl; [|discriminate].
  destruct (forallb _ (filter _ cs)); intro H; inversion H; subst u; simpl; intros k Hk.
  - destruct k; [reflexivity|lia].
  - rewrite map_length, seq_length in Hk.
    apply (nth_map_seq0 (fun k => qsum (map (contrib ep tbl f k) cs))). exact Hk.
Qed.

(* every emitted cell is a Policy-basis cumulative cell for one of the policy years *)
Definition policy_cell (ep : share_table) (o : ucell) : Prop :=
  risk_basis (cmeta (uhdr o)) = Some policy_str /\ ckind (uhdr o) = KCum /\
  exists e, In e ep /\ ps (uhdr o) = fst (fst e) /\ pe (uhdr o) = snd (fst e).
Lemma map_result_concat_forall {A B} (P : B -> Prop) (f : A -> result (list B)) l r :
  map_result f l = Ok r -> (forall a bs, In a l -> f a = Ok bs -> Forall P bs) -> Forall P (concat r).
Proof.
  intros H Hf. apply map_result_spec in H. induction H as [|a b l l' Hab H IH]; simpl; [constructor|].
  apply Forall_app. split.
  - apply (Hf a b); auto. left. reflexivity.
  - apply IH. intros a0 bs Ha0. apply Hf. right. exact Ha0.
Qed.
Lemma py_cell_policy ep0 ep e evd cells l :
  In e ep0 -> py_cell ep e evd cells = Ok l -> Forall (policy_cell ep0) l.
Proof.
  intros Hin. unfold py_cell.
  destruct (dedup _) as [|f0 fs]; [intro H; inversion H; constructor|].
  destruct (rev (cells_at evd cells)) as [|lastc r]; [intro H; inversion H; constructor|].
  intro H. apply bind_ok in H. destruct H as [vs [_ H]]. inversion H. constructor; [|constructor].
  unfold policy_cell. simpl. repeat split; auto. exists e. auto.
Qed.
Lemma aq_to_py_slice_policy ep cells out :
  aq_to_py_slice ep cells = Ok out -> Forall (policy_cell ep) out.
Proof.
  unfold aq_to_py_slice. destruct (flat_right_edge cells); simpl; [|discriminate].
  destruct (zero_total ep); [discriminate|]. intro H. apply bind_ok in H. destruct H as [l [Hl H]].
  inversion H. subst out. clear H.
  eapply map_result_concat_forall; [exact Hl|]. intros e bs He Hb.
  apply bind_ok in Hb. destruct Hb as [l2 [Hl2 Hb]]. inversion Hb. subst bs.
  eapply map_result_concat_forall; [exact Hl2|]. intros evd bs2 _ Hb2.
  simpl in Hb2. exact (py_cell_policy ep ep e evd cells bs2 He Hb2).
Qed.
Lemma aq_to_py_refuses_ragged_edge ep cells :
  flat_right_edge cells = false -> aq_to_py_slice ep cells = Err ValueError.
Proof. intro H. unfold aq_to_py_slice. rewrite H. reflexivity. Qed.

(* ================================================================== disaggregate_experience *)
Definition vsample (k : nat) (v : value) : Q := match samples v with Some l => nth k l 0 | None => 0 end.
Fixpoint uassoc (k : str) (d : list (str * uval)) : option uval :=
  match d with [] => None | (k', v) :: r => if str_eqb k k' then Some v else uassoc k r end.

Lemma usample_weight k w v : v <> VNone -> usample k (weight_value w v) == vsample k v * w.
Proof.
  destruct v as [x| |fl xs]; intro H; [| congruence |]; unfold vsample; simpl.
  - destruct k as [|[|k]]; simpl; ring.
  - clear H. revert k. induction xs as [|n xs IH]; intros [|k]; simpl; try ring. apply IH.
Qed.
Lemma mem_str_eq f g l : str_eqb f g = true -> mem_str g l = mem_str f l.
Proof. intro H. apply str_eqb_eq in H. subst. reflexivity. Qed.
Lemma sub_cell_value fields c p w f v :
  mem_str f fields = true -> assoc f (cvals c) = Some v ->
  uassoc f (uvals (sub_cell fields c (p, w))) = Some (weight_value w v).
Proof.
  intros Hm. unfold sub_cell. simpl. induction (cvals c) as [|[k x] l IH]; simpl; [discriminate|].
  destruct (str_eqb f k) eqn:E.
  - intro H. inversion H. subst x. rewrite (mem_str_eq f k fields E), Hm. simpl. rewrite E. reflexivity.
  - intro H. destruct (mem_str k fields); simpl; [rewrite E|]; auto.
Qed.
Lemma norm_weights_sum ws : ~ qsum ws == 0 -> qsum (norm_weights ws) == 1.
Proof.
  intro H. unfold norm_weights.
  rewrite (qsum_map_ext _ (fun w => w * (1 / qsum ws))) by (intros; field; exact H).
  rewrite qsum_map_times. field. exact H.
Qed.
Lemma norm_weights_length ws : length (norm_weights ws) = length ws.
Proof. unfold norm_weights. apply map_length. Qed.
Lemma qsum_combine_snd {A} (g : Q -> Q) : forall (a : list A) (b : list Q), length a = length b ->
  qsum (map (fun pw => g (snd pw)) (combine a b)) == qsum (map g b).
Proof.
  induction a as [|x a IH]; intros [|y b] H; simpl in *; try discriminate; [reflexivity|].
  rewrite IH; [reflexivity|lia].
Qed.

(* a cell with at least one observable sub-period: one output cell per observable sub-period, carrying the
   evaluation date and metadata of the original; for every disaggregated field the sub-period values add
   up to the original value, sample by sample *)
Lemma disagg_cell_spec res_new n ws fields c outs :
  disagg_cell res_new n ws fields c = Ok outs ->
  let subs := observable c (subperiods res_new n c) in
  (length subs <= length ws)%nat -> subs <> [] ->
  length outs = length subs /\
  map (fun o => (ps (uhdr o), pe (uhdr o))) outs = subs /\
  Forall (fun o => ev (uhdr o) = ev c /\ cmeta (uhdr o) = cmeta c /\ ckind (uhdr o) = KCell) outs /\
  forall f v k, mem_str f fields = true -> assoc f (cvals c) = Some v -> v <> VNone ->
    qsum (map (fun o => match uassoc f (uvals o) with Some u => usample k u | None => 0 end) outs)
    == vsample k v.
Proof.
  unfold disagg_cell. cbv zeta. set (subs := observable c (subperiods res_new n c)).
  intros H Hlen Hne.
  destruct (length subs =? 0)%nat eqn:E0; [apply Nat.eqb_eq in E0; destruct subs; [congruence|discriminate]|].
  destruct (Qeq_bool (qsum (firstn (length subs) ws)) 0) eqn:EQ; [discriminate|].
  apply Qeq_bool_neq in EQ. inversion H. subst outs. clear H.
  set (w0 := firstn (length subs) ws) in *.
  assert (Lw : length (norm_weights w0) = length subs).
  { rewrite norm_weights_length. unfold w0. rewrite firstn_length. lia. }
  assert (Lc : length (combine subs (norm_weights w0)) = length subs) by (rewrite combine_length; lia).
  split; [rewrite map_length; exact Lc|]. split; [|split].
  - rewrite map_map. simpl. clear - Lw. revert Lw. generalize (norm_weights w0).
    induction subs as [|p subs IH]; intros [|w l] H; simpl in *; try discriminate; auto.
    destruct p. simpl. f_equal. apply IH. lia.
  - apply Forall_forall. intros o Ho. apply in_map_iff in Ho. destruct Ho as [pw [Hpw _]]. subst o. simpl. auto.
  - intros f v k Hm Hv Hn. rewrite map_map.
    rewrite (qsum_map_ext _ (fun pw => vsample k v * snd pw)).
    + rewrite (qsum_combine_snd (fun w => vsample k v * w)) by (symmetry; exact Lw).
      rewrite (qsum_map_ext _ (fun w => w * vsample k v)) by (intros; ring).
      rewrite qsum_map_times, (norm_weights_sum w0 EQ). ring.
    + intros [p w] _. rewrite (sub_cell_value fields c p w f v Hm Hv). simpl snd. apply usample_weight. exact Hn.
Qed.
Lemma disagg_cell_unobservable res_new n ws fields c :
  observable c (subperiods res_new n c) = [] -> disagg_cell res_new n ws fields c = Ok [].
Proof. intro H. unfold disagg_cell. rewrite H. reflexivity. Qed.

(* H3: observable sub-periods whose weights sum to zero: division by zero (ZeroDivisionError) *)
Lemma disagg_cell_zero_prefix res_new n ws fields c :
  observable c (subperiods res_new n c) <> [] ->
  qsum (firstn (length (observable c (subperiods res_new n c))) ws) == 0 ->
  disagg_cell res_new n ws fields c = Err OtherError.
Proof.
  intros Hne Hz. unfold disagg_cell.
  destruct (length (observable c (subperiods res_new n c)) =? 0)%nat eqn:E.
  - apply Nat.eqb_eq in E. destruct (observable c (subperiods res_new n c)); [congruence|discriminate].
  - apply Qeq_bool_iff in Hz. rewrite Hz. reflexivity.
Qed.

(* refusals / identity of the dispatcher *)
Lemma disagg_same rt w fields tf cells : disaggregate_experience rt rt w fields tf cells = DSame.
Proof. unfold disaggregate_experience. rewrite Nat.ltb_irrefl, Nat.eqb_refl. reflexivity. Qed.
Lemma disagg_refuses_coarser rt rn w fields tf cells :
  (rt < rn)%nat -> disaggregate_experience rt rn w fields tf cells = DCells (Err ValueError).
Proof. intro H. unfold disaggregate_experience. apply Nat.ltb_lt in H. rewrite H. reflexivity. Qed.
Lemma disagg_refuses_nondivisor rt rn w fields tf cells :
  (rn < rt)%nat -> (rt mod rn <> 0)%nat -> existsb (fun f => mem_str f fields) tf = true ->
  disaggregate_experience rt rn w fields tf cells = DCells (Err ValueError).
Proof.
  intros H1 H2 H3. unfold disaggregate_experience.
  assert ((rt <? rn)%nat = false) as -> by (apply Nat.ltb_ge; lia).
  assert ((rn =? rt)%nat = false) as -> by (apply Nat.eqb_neq; lia).
  rewrite H3. simpl. apply Nat.eqb_neq in H2. rewrite H2. reflexivity.
Qed.

(* a weight list whose sum is not 1 is refused (ValueError), whatever the cells *)
Lemma disagg_refuses_weight_sum rt rn ws fields tf cells :
  (rn < rt)%nat -> (rt mod rn = 0)%nat -> existsb (fun f => mem_str f fields) tf = true ->
  ~ Qabs (qsum ws - 1) <= wtol ->
  disaggregate_experience rt rn (Some ws) fields tf cells = DCells (Err ValueError).
Proof.
  intros H1 H2 H3 Hs. unfold disaggregate_experience.
  assert ((rt <? rn)%nat = false) as -> by (apply Nat.ltb_ge; lia).
  assert ((rn =? rt)%nat = false) as -> by (apply Nat.eqb_neq; lia).
  rewrite H3, H2. cbn [negb Nat.eqb]. cbv zeta.
  assert (valid_weights (rt / rn) ws = false) as ->; [|reflexivity].
  unfold valid_weights. apply andb_false_iff. right. apply not_true_is_false. intro E.
  apply Qle_bool_iff in E. contradiction.
Qed.
