(** C07 -- shape theorems about the export (prev iff incremental, metadata once) and independence of
    the import from the order of object members. *)
From Coq Require Import ZArith List Bool Lia ZifyBool Permutation.
From Bermuda Require Import Model.Base Lib.Calendar Model.Json Proofs.JsonBase Proofs.JsonRoundtrip.
Import ListNotations.
Local Open Scope Z_scope.

Notation L := std_layout.

(* ------------------------------------------------------------------ corollaries of the round trip *)
Lemma values_preserved : forall t cs, wf_tri L t = true -> grouped t = true ->
  decode L (encode L t) = Ok cs ->
  map w_vals cs = map w_vals t /\ map w_meta cs = map w_meta t /\
  map (fun c => (w_ps c, w_pe c, w_ev c, w_prev c)) cs = map (fun c => (w_ps c, w_pe c, w_ev c, w_prev c)) t /\
  map w_kind cs = map (fun c => retag_kind (w_kind c)) t.
Proof.
  intros t cs H1 H2 H. rewrite (decode_encode t H1 H2) in H. inversion H; subst. rewrite !map_map. cbn.
  repeat split; reflexivity.
Qed.

Definition cell_members (c : wcell) : list (str * json) :=
  enc_dates (L_cell_out L) c ++ (if is_inc_kind (w_kind c) then enc_dates (L_prev_out L) c else [])
  ++ [(L_values L, enc_dict enc_cval (w_vals c))].
Lemma enc_cell_members : forall c, enc_cell L c = JObj (cell_members c).
Proof. reflexivity. Qed.

Lemma prev_iff_incremental : forall c,
  match enc_cell L c with JObj kv => has_key k_prev kv = is_inc_kind (w_kind c) | _ => False end.
Proof. intros c. rewrite enc_cell_members. unfold cell_members. destruct (w_kind c); reflexivity. Qed.

Fixpoint pairwise {A} (R : A -> A -> Prop) (l : list A) : Prop :=
  match l with [] => True | x :: r => Forall (R x) r /\ pairwise R r end.

Lemma group_add_fst : forall (Q : wmeta -> Prop) c gs,
  Forall (fun g => Q (fst g)) gs -> Q (w_meta c) -> Forall (fun g => Q (fst g)) (group_add c gs).
Proof.
  intros Q c gs H Hc. induction H as [|[m cs] r H1 Hr IH]; cbn [group_add].
  - constructor; [exact Hc|constructor].
  - destruct (meta_pyeq m (w_meta c)); constructor; assumption.
Qed.
Lemma group_add_pairwise : forall c gs,
  pairwise (fun g1 g2 : wmeta * list wcell => meta_pyeq (fst g1) (fst g2) = false) gs ->
  pairwise (fun g1 g2 : wmeta * list wcell => meta_pyeq (fst g1) (fst g2) = false) (group_add c gs).
Proof.
  intros c gs. induction gs as [|[m cs] r IH]; intros H; cbn [group_add].
  - cbn. split; [constructor|exact I].
  - cbn in H. destruct H as [H1 H2]. destruct (meta_pyeq m (w_meta c)) eqn:E.
    + cbn. split; assumption.
    + cbn. split; [|apply IH; exact H2].
      apply (group_add_fst (fun x => meta_pyeq m x = false)); assumption.
Qed.
Lemma group_add_perm : forall c gs, Permutation (flat_map snd (group_add c gs)) (flat_map snd gs ++ [c]).
Proof.
  intros c gs. induction gs as [|[m cs] r IH]; cbn [group_add].
  - reflexivity.
  - destruct (meta_pyeq m (w_meta c)); cbn [flat_map snd].
    + rewrite <- !app_assoc. apply Permutation_app_head. apply Permutation_app_comm.
    + rewrite <- app_assoc. apply Permutation_app_head. exact IH.
Qed.

Lemma metadata_once : forall t,
  encode L t = JObj [(k_slices, JArr (map (enc_slice L) (groups t)))] /\
  pairwise (fun g1 g2 => meta_pyeq (fst g1) (fst g2) = false) (groups t) /\
  Permutation (flat_map snd (groups t)) t /\
  (forall c, match enc_cell L c with
             | JObj kv => forallb (fun k => str_mem k [k_ps; k_pe; k_ev; k_prev; k_values]) (keys kv) = true
             | _ => False end).
Proof.
  intros t. split; [reflexivity|]. split; [|split].
  - unfold groups. assert (G : forall acc, pairwise (fun g1 g2 : wmeta * list wcell => meta_pyeq (fst g1) (fst g2) = false) acc ->
      pairwise (fun g1 g2 : wmeta * list wcell => meta_pyeq (fst g1) (fst g2) = false) (fold_left (fun gs c => group_add c gs) t acc)).
    { induction t as [|c r IH]; intros acc H; [exact H|]. cbn [fold_left]. apply IH. apply group_add_pairwise. exact H. }
    apply G. exact I.
  - unfold groups. assert (G : forall acc, Permutation (flat_map snd (fold_left (fun gs c => group_add c gs) t acc))
                                                       (flat_map snd acc ++ t)).
    { induction t as [|c r IH]; intros acc; cbn [fold_left]; [rewrite app_nil_r; reflexivity|].
      rewrite IH. rewrite group_add_perm. rewrite <- app_assoc. reflexivity. }
    apply (G []).
  - intros c. rewrite enc_cell_members. unfold cell_members. destruct (w_kind c); reflexivity.
Qed.

(* ------------------------------------------------------------------ permutation invariance *)
Lemma nd_NoDup : forall l, nd l = true <-> NoDup l.
Proof.
  induction l as [|k r IH]; cbn [nd]; split; intros H; try constructor; try reflexivity.
  - apply andb_true_iff in H. destruct H as [H1 H2]. apply negb_true_iff in H1. intros Hin.
    apply str_mem_In in Hin. congruence.
  - apply IH. apply andb_true_iff in H. tauto.
  - inversion H; subst. apply andb_true_iff. split; [|apply IH; assumption].
    apply negb_true_iff. destruct (str_mem k r) eqn:E; [|reflexivity]. apply str_mem_In in E. contradiction.
Qed.
Lemma nd_perm : forall a b, Permutation a b -> nd a = true -> nd b = true.
Proof. intros a b P H. apply nd_NoDup. apply (Permutation_NoDup P). apply nd_NoDup. exact H. Qed.
Lemma str_mem_perm : forall k a b, Permutation a b -> str_mem k a = str_mem k b.
Proof.
  intros k a b P. destruct (str_mem k a) eqn:E1, (str_mem k b) eqn:E2; try reflexivity.
  - apply str_mem_In in E1. apply (Permutation_in _ P) in E1. apply str_mem_In in E1. congruence.
  - apply str_mem_In in E2. apply (Permutation_in _ (Permutation_sym P)) in E2. apply str_mem_In in E2. congruence.
Qed.
Lemma keys_perm : forall V (a b : list (str * V)), Permutation a b -> Permutation (keys a) (keys b).
Proof. intros. unfold keys. apply Permutation_map. assumption. Qed.

Lemma assoc_perm : forall V (a b : list (str * V)) k, Permutation a b -> nd (keys a) = true -> assoc k a = assoc k b.
Proof.
  intros V a b k P. induction P as [|[k1 v1] l l' P IH|[k1 v1] [k2 v2] l|l1 l2 l3 P1 IH1 P2 IH2]; intros H.
  - reflexivity.
  - cbn [assoc]. destruct (str_eqb k k1); [reflexivity|]. apply IH.
    change (keys ((k1, v1) :: l)) with (k1 :: keys l) in H. cbn [nd] in H. apply andb_true_iff in H. tauto.
  - change (keys ((k1, v1) :: (k2, v2) :: l)) with (k1 :: k2 :: keys l) in H. cbn [nd] in H.
    apply andb_true_iff in H. destruct H as [H _]. apply negb_true_iff in H. rewrite str_mem_cons in H.
    apply orb_false_iff in H. destruct H as [H _]. cbn [assoc].
    destruct (str_eqb k k2) eqn:E2, (str_eqb k k1) eqn:E1; try reflexivity.
    apply str_eqb_eq in E1, E2. subst. rewrite str_eqb_refl in H. discriminate.
  - rewrite IH1 by exact H. apply IH2. apply (nd_perm _ _ (keys_perm _ _ _ P1) H).
Qed.
Lemma has_key_perm : forall V (a b : list (str * V)) k, Permutation a b -> has_key k a = has_key k b.
Proof. intros. rewrite !has_key_mem. apply str_mem_perm. apply keys_perm. assumption. Qed.

Lemma map_res_perm : forall A B (f : A -> result B) a b ra,
  Permutation a b -> map_res f a = Ok ra -> exists rb, map_res f b = Ok rb /\ Permutation ra rb.
Proof.
  intros A B f a b ra P. revert ra. induction P as [|x l l' P IH|x y l|l1 l2 l3 P1 IH1 P2 IH2]; intros ra H.
  - exists ra. split; [exact H|]. cbn in H. inversion H. constructor.
  - cbn in H |- *. destruct (f x) as [vx|]; cbn in *; [|discriminate].
    destruct (map_res f l) as [rl|] eqn:E; cbn in *; [|discriminate]. inversion H; subst.
    destruct (IH rl eq_refl) as [rb [H1 H2]]. rewrite H1. exists (vx :: rb). split; [reflexivity|]. constructor. exact H2.
  - cbn in H |- *. destruct (f y) as [vy|]; cbn in *; [|discriminate]. destruct (f x) as [vx|]; cbn in *; [|discriminate].
    destruct (map_res f l) as [rl|]; cbn in *; [|discriminate]. inversion H; subst.
    exists (vx :: vy :: rl). split; [reflexivity|]. constructor.
  - destruct (IH1 ra H) as [r2 [H1 H2]]. destruct (IH2 r2 H1) as [r3 [H3 H4]]. exists r3. split; [exact H3|].
    exact (Permutation_trans H2 H4).
Qed.

Lemma hook_member_keys : forall kv ms, map_res (hook_member L) kv = Ok ms -> keys ms = keys kv.
Proof.
  induction kv as [|[k j] r IH]; intros ms H; cbn in H.
  - inversion H. reflexivity.
  - unfold hook_member at 1 in H. cbn [fst snd] in H. destruct (hook L j); cbn in H; [|discriminate].
    destruct (map_res (hook_member L) r) as [rs|] eqn:E; cbn in H; [|discriminate]. inversion H; subst.
    unfold keys in *. cbn. f_equal. apply IH. reflexivity.
Qed.

Section ObjPerm.
  Variable a b : list (str * pyv).
  Hypothesis P : Permutation a b.
  Hypothesis Hnd : nd (keys a) = true.

  Lemma dispatch_perm : forall tbl, dispatch tbl b = dispatch tbl a.
  Proof.
    induction tbl as [|[ks act] r IH]; [reflexivity|]. cbn [dispatch]. rewrite IH.
    replace (forallb (fun k => has_key k b) ks) with (forallb (fun k => has_key k a) ks); [reflexivity|].
    induction ks as [|k ks IHk]; [reflexivity|]. cbn [forallb]. rewrite IHk, (has_key_perm _ a b k P). reflexivity.
  Qed.
  Lemma assoc_ab : forall k, assoc k b = assoc k a.
  Proof. intros. symmetry. apply assoc_perm; assumption. Qed.
  Lemma get_attr_perm : forall x, get_attr L b x = get_attr L a x.
  Proof. intros. unfold get_attr. destruct (find _ _) as [[[? k] d]|]; [rewrite assoc_ab|]; reflexivity. Qed.
  Lemma parse_cell_set_perm : parse_cell_set L b = parse_cell_set L a.
  Proof. unfold parse_cell_set, parse_meta. rewrite !get_attr_perm, assoc_ab. reflexivity. Qed.
  Lemma date_arg_perm : forall tbl x, date_arg b tbl x = date_arg a tbl x.
  Proof. intros. unfold date_arg, parse_date_v. destruct (date_key tbl x); [rewrite assoc_ab|]; reflexivity. Qed.
  Lemma parse_observation_perm : parse_observation L b = parse_observation L a.
  Proof.
    unfold parse_observation. rewrite assoc_ab. destruct (assoc (L_values_in L) a) as [[]|]; try reflexivity.
    match goal with |- bind ?x _ = bind ?x _ => destruct x; cbn [bind]; [|reflexivity] end.
    rewrite (has_key_perm _ a b _ P).
    repeat (rewrite ?date_arg_perm;
            match goal with |- bind ?x _ = bind ?x _ => destruct x; cbn [bind]; [|reflexivity] end).
    reflexivity.
  Qed.
  Lemma object_hook_perm : forall r, object_hook L a = Ok r -> (forall d, r <> PDict d) -> object_hook L b = Ok r.
  Proof.
    intros r H Hr. unfold object_hook in *. rewrite dispatch_perm.
    destruct (dispatch (L_dispatch L) a) as [[]|].
    - rewrite assoc_ab. exact H.
    - rewrite parse_cell_set_perm. exact H.
    - rewrite parse_observation_perm. exact H.
    - inversion H. exfalso. apply (Hr a). congruence.
  Qed.
End ObjPerm.

Lemma hook_obj_perm : forall kv kv2 r,
  hook L (JObj kv) = Ok r -> (forall d, r <> PDict d) -> Permutation kv kv2 -> nd (keys kv) = true ->
  hook L (JObj kv2) = Ok r.
Proof.
  intros kv kv2 r H Hr P Hnd. rewrite hook_obj in H |- *.
  destruct (map_res (hook_member L) kv) as [ms|] eqn:E; cbn [bind] in H; [|discriminate].
  destruct (map_res_perm _ _ _ _ _ _ P E) as [ms2 [E2 P2]]. rewrite E2. cbn [bind].
  assert (Hm : nd (keys ms) = true) by (rewrite (hook_member_keys _ _ E); exact Hnd).
  assert (Hm2 : nd (keys ms2) = true) by (apply (nd_perm _ _ (keys_perm _ _ _ P2) Hm)).
  rewrite (dict_of_pairs_nd _ _ Hm) in H. rewrite (dict_of_pairs_nd _ _ Hm2).
  apply (object_hook_perm ms ms2 P2 Hm r H Hr).
Qed.

(* ------------------------------------------------------------------ the export up to member order *)
Definition with_vals (c : wcell) (v : list (str * cval)) : wcell :=
  mkWCell (w_kind c) (w_ps c) (w_pe c) (w_ev c) (w_prev c) (w_meta c) v.
Definition with_details (m : wmeta) (d ld : list (str * dval)) : wmeta :=
  mkWMeta (w_risk m) (w_country m) (w_currency m) (w_reins m) (w_lossdef m) (w_limit m) d ld.

(* j is the object of cell c with the members of the cell object and of its `values` object in any
   order; c' is c with the values dictionary in the order j lists it *)
Inductive cell_upto (c : wcell) : json -> wcell -> Prop :=
| cu_intro : forall vals' kv2, Permutation (w_vals c) vals' ->
    Permutation (cell_members (with_vals c vals')) kv2 -> cell_upto c (JObj kv2) (with_vals c vals').
(* likewise for a slice object, its details / loss_details objects and its cells *)
Inductive slice_upto (g : wmeta * list wcell) : json -> wmeta * list wcell -> Prop :=
| su_intro : forall d' ld' (jcs : list (json * wcell)) kv2,
    Permutation (w_details (fst g)) d' -> Permutation (w_loss_details (fst g)) ld' ->
    Forall2 (fun c p => cell_upto c (fst p) (snd p)) (snd g) jcs ->
    Permutation (enc_meta L (with_details (fst g) d' ld') ++ [(k_cells, JArr (map fst jcs))]) kv2 ->
    slice_upto g (JObj kv2) (with_details (fst g) d' ld', map snd jcs).
Inductive tri_upto (t : list wcell) : json -> list (wmeta * list wcell) -> Prop :=
| tu_intro : forall (jgs : list (json * (wmeta * list wcell))),
    Forall2 (fun g p => slice_upto g (fst p) (snd p)) (groups t) jgs ->
    tri_upto t (JObj [(k_slices, JArr (map fst jgs))]) (map snd jgs).

(* Python's == on the cells read back: dictionaries up to order *)
Definition meta_equiv (m m' : wmeta) : Prop :=
  w_risk m = w_risk m' /\ w_country m = w_country m' /\ w_currency m = w_currency m' /\
  w_reins m = w_reins m' /\ w_lossdef m = w_lossdef m' /\ w_limit m = w_limit m' /\
  Permutation (w_details m) (w_details m') /\ Permutation (w_loss_details m) (w_loss_details m').
Definition cell_equiv (c c' : wcell) : Prop :=
  w_kind c = w_kind c' /\ w_ps c = w_ps c' /\ w_pe c = w_pe c' /\ w_ev c = w_ev c' /\ w_prev c = w_prev c' /\
  meta_equiv (w_meta c) (w_meta c') /\ Permutation (w_vals c) (w_vals c').

Lemma forallb_perm : forall A (f : A -> bool) a b, Permutation a b -> forallb f a = true -> forallb f b = true.
Proof.
  intros A f a b P H. apply forallb_forall. intros x Hx. rewrite forallb_forall in H. apply H.
  apply (Permutation_in _ (Permutation_sym P)). exact Hx.
Qed.
Lemma hook_inert_perm : forall a b, Permutation a b -> hook_inert L a = true -> hook_inert L b = true.
Proof.
  intros a b P H. unfold hook_inert in *. rewrite forallb_forall in *. intros e He. specialize (H e He).
  assert (E : forall ks, forallb (fun k => str_mem k b) ks = forallb (fun k => str_mem k a) ks).
  { induction ks as [|k r IH]; [reflexivity|]. cbn [forallb]. rewrite IH, (str_mem_perm k a b P). reflexivity. }
  rewrite E. exact H.
Qed.
Lemma wf_dict_perm : forall V (a b : list (str * V)), Permutation a b -> wf_dict L a = true -> wf_dict L b = true.
Proof.
  intros V a b P H. unfold wf_dict in *. apply andb_true_iff in H. destruct H as [H1 H2]. apply andb_true_iff. split.
  - rewrite nodup_keys_nd in *. apply (nd_perm _ _ (keys_perm _ _ _ P) H1).
  - apply (hook_inert_perm _ _ (keys_perm _ _ _ P) H2).
Qed.
Lemma wf_cell_with_vals : forall c v, Permutation (w_vals c) v -> wf_cell L c = true -> wf_cell L (with_vals c v) = true.
Proof.
  intros c v P H. unfold wf_cell in *. cbn [with_vals w_kind w_ps w_pe w_ev w_prev w_meta w_vals].
  apply andb_true_iff in H. destruct H as [H Hv]. apply andb_true_iff in H. destruct H as [HA Hd].
  rewrite HA. cbn [andb]. apply andb_true_iff. split.
  - apply (wf_dict_perm _ _ _ P). assumption.
  - apply (forallb_perm _ _ _ _ P). assumption.
Qed.
Lemma wf_meta_with_details : forall m d ld, Permutation (w_details m) d -> Permutation (w_loss_details m) ld ->
  wf_meta L m = true -> wf_meta L (with_details m d ld) = true.
Proof.
  intros m d ld P1 P2 H. unfold wf_meta in *. cbn [with_details w_details w_loss_details].
  apply andb_true_iff in H. destruct H as [H1 H2]. apply andb_true_iff. split;
    [apply (wf_dict_perm _ _ _ P1 H1)|apply (wf_dict_perm _ _ _ P2 H2)].
Qed.

Lemma hook_cell_upto : forall c j c', wf_cell L c = true -> cell_upto c j c' -> hook L j = Ok (PCell (bare c')).
Proof.
  intros c j c' H U. destruct U as [vals' kv2 P1 P2].
  pose proof (wf_cell_with_vals c vals' P1 H) as H'.
  apply (hook_obj_perm (cell_members (with_vals c vals'))); try assumption.
  - rewrite <- enc_cell_members. apply hook_enc_cell. exact H'.
  - intros d; discriminate.
  - unfold cell_members. destruct (w_kind (with_vals c vals')); reflexivity.
Qed.

Lemma hook_slice_upto : forall g j g', wf_meta L (fst g) = true -> forallb (wf_cell L) (snd g) = true ->
  slice_upto g j g' -> hook L j = Ok (PList (map (fun c => PCell (back (fst g') c)) (snd g'))).
Proof.
  intros [m cs] j g' Hm Hcs U. cbn [fst snd] in *. destruct U as [d' ld' jcs kv2 P1 P2 F P3]. cbn [fst snd] in *.
  set (m' := with_details m d' ld') in *.
  pose proof (wf_meta_with_details m d' ld' P1 P2 Hm) as Hm'. fold m' in Hm'.
  apply (hook_obj_perm (enc_meta L m' ++ [(k_cells, JArr (map fst jcs))])); try assumption.
  - (* the unpermuted slice object, whose cells array holds permuted cell objects *)
    rewrite hook_obj, enc_meta_fm.
    assert (Hc : hook L (JArr (map fst jcs)) = Ok (PList (map (fun c => PCell (bare c)) (map snd jcs)))).
    { rewrite hook_arr. rewrite map_map.
      rewrite (map_res_map _ _ _ (hook L) fst (fun p : json * wcell => PCell (bare (snd p)))); [reflexivity|].
      intros p Hin. clear - F Hcs Hin. induction F as [|c q cs0 jcs0 Hq F IH]; [destruct Hin|].
      cbn [forallb] in Hcs. apply andb_true_iff in Hcs. destruct Hcs as [Hc1 Hc2]. destruct Hin as [->|Hin].
      - apply (hook_cell_upto c). exact Hc1. exact Hq.
      - apply IH; assumption. }
    rewrite (map_res_app _ _ (hook_member L) _ _ (fm py_attr m' (L_meta_out L))
               [(k_cells, PList (map (fun c => PCell (bare c)) (map snd jcs)))]).
    2:{ apply hook_fm. exact Hm'. }
    2:{ cbn [map_res]. unfold hook_member. cbn [fst snd]. rewrite Hc. reflexivity. }
    cbn [bind].
    set (v := PList (map (fun c => PCell (bare c)) (map snd jcs))).
    set (obj := fm py_attr m' (L_meta_out L) ++ [(k_cells, v)]).
    assert (Hnd : nd (keys obj) = true) by (unfold obj; rewrite keys_app; apply nd_fm; reflexivity).
    rewrite (dict_of_pairs_nd _ _ Hnd).
    assert (Hs : has_key k_slices obj = false).
    { rewrite has_key_mem. unfold obj. rewrite keys_app.
      destruct (str_mem k_slices (keys (fm py_attr m' (L_meta_out L)) ++ keys [(k_cells, v)])) eqn:E; [|reflexivity].
      apply mem_fm in E. vm_compute in E. discriminate. }
    assert (Hcells : assoc k_cells obj = Some v).
    { unfold obj. rewrite assoc_app.
      replace (assoc k_cells (fm py_attr m' (L_meta_out L))) with (@None pyv); [reflexivity|].
      symmetry. apply assoc_none_mem.
      destruct (str_mem k_cells (keys (fm py_attr m' (L_meta_out L)))) eqn:E; [|reflexivity].
      pose proof (mem_fm _ py_attr m' k_cells (L_meta_out L) []) as G. rewrite !app_nil_r in G.
      apply G in E. vm_compute in E. discriminate. }
    assert (Hk : has_key k_cells obj = true) by (unfold has_key; rewrite Hcells; reflexivity).
    unfold object_hook. cbn [L_dispatch std_layout dispatch forallb]. rewrite Hs, Hk. cbn [andb].
    unfold parse_cell_set. unfold obj at 1. rewrite parse_meta_obj. cbn [bind L_cells_in std_layout].
    rewrite Hcells. unfold v.
    rewrite (map_res_map _ _ _ (replace_meta m') (fun c => PCell (bare c)) (fun c => PCell (back m' c)));
      [reflexivity|]. intros; reflexivity.
  - intros d; discriminate.
  - rewrite keys_app, enc_meta_fm. apply nd_fm. reflexivity.
Qed.

Definition regroup_of (gs : list (wmeta * list wcell)) : list wcell :=
  flat_map (fun g => map (back (fst g)) (snd g)) gs.

Lemma hook_tri_upto : forall t j gs', forallb (wf_cell L) t = true -> tri_upto t j gs' ->
  hook L j = Ok (PList (map PCell (regroup_of gs'))).
Proof.
  intros t j gs' Hwf U. destruct U as [jgs F].
  assert (Hg : Forall (fun g => wf_meta L (fst g) = true /\ Forall (fun c => wf_cell L c = true) (snd g)) (groups t)).
  { apply (groups_forall (fun c => wf_cell L c = true) (fun m => wf_meta L m = true)).
    - intros c Hc. unfold wf_cell in Hc. repeat (apply andb_true_iff in Hc; destruct Hc as [Hc ?]). assumption.
    - apply Forall_forall. rewrite forallb_forall in Hwf. exact Hwf. }
  rewrite hook_obj. cbn [map_res].
  assert (Ha : hook L (JArr (map fst jgs)) =
               Ok (PList (map (fun p : json * (wmeta * list wcell) =>
                                 PList (map (fun c => PCell (back (fst (snd p)) c)) (snd (snd p)))) jgs))).
  { rewrite hook_arr.
    rewrite (map_res_map _ _ _ (hook L) fst
       (fun p : json * (wmeta * list wcell) => PList (map (fun c => PCell (back (fst (snd p)) c)) (snd (snd p)))));
      [reflexivity|].
    intros p Hin. clear - F Hg Hin. induction F as [|g q gs0 jgs0 Hq F IH]; [destruct Hin|].
    inversion Hg as [|? ? [H1 H2] Hg']; subst. destruct Hin as [->|Hin].
    - apply (hook_slice_upto g); [exact H1| |exact Hq]. apply forallb_forall. rewrite Forall_forall in H2. exact H2.
    - apply IH; assumption. }
  unfold hook_member at 1. cbn [fst snd]. rewrite Ha. cbn [bind].
  rewrite dict_of_pairs_nd by reflexivity.
  unfold object_hook.
  match goal with |- context [dispatch ?tb ?o] => change (dispatch tb o) with (Some AConcat) end.
  cbv beta iota. cbn [L_slices_in std_layout].
  match goal with |- context [assoc k_slices [(k_slices, ?v)]] =>
    change (assoc k_slices [(k_slices, v)]) with (Some v) end.
  cbv beta iota. unfold sum_lists.
  rewrite <- (map_map (fun p : json * (wmeta * list wcell) => map (fun c => PCell (back (fst (snd p)) c)) (snd (snd p))) PList).
  rewrite concat_lists_map. cbn [bind]. f_equal. f_equal.
  unfold regroup_of. rewrite flat_map_concat_map, concat_map, !map_map.
  f_equal. apply map_ext. intros g. rewrite map_map. reflexivity.
Qed.

Lemma cell_upto_equiv : forall c j c', cell_upto c j c' -> cell_equiv c c'.
Proof.
  intros c j c' U. destruct U as [vals' kv2 P1 P2]. unfold cell_equiv, meta_equiv. cbn.
  repeat split; try reflexivity; try assumption.
Qed.

Lemma back_equiv : forall m m' c c', meta_equiv m m' -> cell_equiv c c' -> cell_equiv (back m c) (back m' c').
Proof.
  intros m m' c c' Hm Hc. unfold cell_equiv in *. destruct Hc as (H1 & H2 & H3 & H4 & H5 & H6 & H7).
  cbn [back with_meta retag w_kind w_ps w_pe w_ev w_prev w_meta w_vals].
  rewrite H1. split; [reflexivity|]. split; [exact H2|]. split; [exact H3|]. split; [exact H4|].
  split; [exact H5|]. split; [exact Hm|exact H7].
Qed.

Lemma regroup_upto_equiv : forall gs (jgs : list (json * (wmeta * list wcell))),
  Forall2 (fun g p => slice_upto g (fst p) (snd p)) gs jgs ->
  Forall2 cell_equiv (regroup_of gs) (regroup_of (map snd jgs)).
Proof.
  intros gs jgs F. induction F as [|g p gs0 jgs0 Hp F IH]; [constructor|].
  unfold regroup_of in *. cbn [flat_map map]. apply Forall2_app; [|exact IH].
  destruct Hp as [d' ld' jcs kv2 P1 P2 Fc P3]. cbn [fst snd].
  assert (Hm : meta_equiv (fst g) (with_details (fst g) d' ld')).
  { unfold meta_equiv. cbn. repeat split; try reflexivity; assumption. }
  clear P3. induction Fc as [|c q cs0 jcs0 Hq Fc IHc]; [constructor|].
  cbn [map]. constructor; [|exact IHc]. apply back_equiv; [exact Hm|]. apply (cell_upto_equiv _ _ _ Hq).
Qed.

Lemma kind_forall_regroup_of : forall K t gs' (jgs : list (json * (wmeta * list wcell))),
  Forall2 (fun g p => slice_upto g (fst p) (snd p)) (groups t) jgs -> gs' = map snd jgs ->
  forallb (fun x => kind_eqb (w_kind x) K) t = true ->
  forallb (fun x => kind_eqb (w_kind x) (retag_kind K)) (regroup_of gs') = true.
Proof.
  intros K t gs' jgs F -> H.
  pose proof (kind_forall_regroup K t H) as G. pose proof (regroup_upto_equiv _ _ F) as E.
  change (regroup t) with (regroup_of (groups t)) in G.
  revert G. generalize (regroup_of (groups t)), (regroup_of (map snd jgs)), E. clear.
  induction 1 as [|x y l l' Hxy _ IH]; [reflexivity|]. cbn [forallb]. intros G. apply andb_true_iff in G.
  destruct G as [G1 G2]. rewrite (IH G2), andb_true_r. destruct Hxy as [Hk _]. rewrite <- Hk. exact G1.
Qed.

Theorem decode_upto_general : forall t j gs', wf_tri L t = true -> tri_upto t j gs' ->
  decode L j = Ok (regroup_of gs') /\ Forall2 cell_equiv (regroup t) (regroup_of gs').
Proof.
  intros t j gs' H U. unfold wf_tri in H. apply andb_true_iff in H. destruct H as [Hwf Hone].
  pose proof (hook_tri_upto t j gs' Hwf U) as Hh. destruct U as [jgs F]. split.
  - unfold decode. rewrite Hh. cbn [bind]. rewrite cells_of_map. cbn [bind].
    replace (one_class (regroup_of (map snd jgs))) with true; [reflexivity|].
    symmetry. unfold one_class in *. apply orb_true_iff in Hone. destruct Hone as [Hone|Hone];
      [apply orb_true_iff in Hone; destruct Hone as [Hone|Hone]|];
      apply (kind_forall_regroup_of _ t _ jgs F eq_refl) in Hone; cbn [retag_kind] in Hone;
      rewrite Hone; rewrite ?orb_true_r; reflexivity.
  - apply (regroup_upto_equiv _ _ F).
Qed.

Theorem decode_upto : forall t j gs', wf_tri L t = true -> grouped t = true -> tri_upto t j gs' ->
  exists cs, decode L j = Ok cs /\ Forall2 cell_equiv (map retag t) cs.
Proof.
  intros t j gs' H1 H2 U. destruct (decode_upto_general t j gs' H1 U) as [Hd He].
  exists (regroup_of gs'). split; [exact Hd|]. rewrite <- (regroup_grouped t H2). exact He.
Qed.

(* the identity arrangement is one of them *)
Lemma cell_upto_refl : forall c, cell_upto c (enc_cell L c) c.
Proof.
  intros c. rewrite enc_cell_members.
  replace c with (with_vals c (w_vals c)) at 2 3 by (destruct c; reflexivity).
  constructor; reflexivity.
Qed.
