(** C16 -- rational-arithmetic facts (weighted sums, convexity), mixture membership, refusals *)
From Coq Require Import ZArith QArith Qabs Qminmax List Bool Lia Lqa Arith.
From Bermuda Require Import Model.Base Model.Blend Proofs.BlendP.
Import ListNotations.
Local Open Scope Q_scope.

(* ------------------------------------------------------------------ weighted sums *)
Definition nonneg (ws : list Q) : Prop := Forall (fun w => 0 <= w) ws.
Definition convex (ws : list Q) : Prop := nonneg ws /\ qsum ws == 1.

Lemma dot_between lo hi : forall ws xs,
  nonneg ws -> length ws = length xs -> Forall (fun x => lo <= x /\ x <= hi) xs ->
  lo * qsum ws <= dot ws xs /\ dot ws xs <= hi * qsum ws.
Proof.
  induction ws as [|w ws IH]; intros [|x xs] Hn Hl Hx; simpl in *; try discriminate.
  - split; lra.
  - inversion Hn as [|? ? Hw Hn']. inversion Hx as [|? ? [Hx1 Hx2] Hx']. subst.
    destruct (IH xs Hn' (eq_add_S _ _ Hl) Hx') as [I1 I2]. split; nra.
Qed.

(* convex weights: the blend lies between any common lower and upper bound of the inputs,
   in particular between their minimum and maximum *)
Lemma dot_convex_bounds lo hi ws xs :
  convex ws -> length ws = length xs -> Forall (fun x => lo <= x /\ x <= hi) xs ->
  lo <= dot ws xs /\ dot ws xs <= hi.
Proof.
  intros [Hn Hs] Hl Hx. destruct (dot_between lo hi ws xs Hn Hl Hx) as [H1 H2].
  rewrite Hs in H1, H2. split; lra.
Qed.

Lemma dot_equal c : forall ws xs,
  length ws = length xs -> Forall (fun x => x == c) xs -> dot ws xs == c * qsum ws.
Proof.
  induction ws as [|w ws IH]; intros [|x xs] Hl Hx; simpl in *; try discriminate.
  - lra.
  - inversion Hx as [|? ? Hx1 Hx']. subst. rewrite (IH xs (eq_add_S _ _ Hl) Hx'), Hx1. ring.
Qed.
Lemma dot_convex_equal c ws xs :
  qsum ws == 1 -> length ws = length xs -> Forall (fun x => x == c) xs -> dot ws xs == c.
Proof. intros Hs Hl Hx. rewrite (dot_equal c ws xs Hl Hx), Hs. ring. Qed.

(* minimum / maximum of a non-empty list, for the statement in the property's own words *)
Fixpoint qmin_l (x : Q) (l : list Q) : Q := match l with [] => x | y :: r => Qmin x (qmin_l y r) end.
Fixpoint qmax_l (x : Q) (l : list Q) : Q := match l with [] => x | y :: r => Qmax x (qmax_l y r) end.
Lemma qmin_l_le x l : Forall (fun y => qmin_l x l <= y) (x :: l).
Proof.
  revert x. induction l as [|y r IH]; intro x; simpl.
  - constructor; [lra|constructor].
  - constructor; [apply Q.le_min_l|]. specialize (IH y).
    eapply Forall_impl; [|exact IH]. intros a Ha. simpl in Ha.
    eapply Qle_trans; [apply Q.le_min_r|exact Ha].
Qed.
Lemma qmax_l_ge x l : Forall (fun y => y <= qmax_l x l) (x :: l).
Proof.
  revert x. induction l as [|y r IH]; intro x; simpl.
  - constructor; [lra|constructor].
  - constructor; [apply Q.le_max_l|]. specialize (IH y).
    eapply Forall_impl; [|exact IH]. intros a Ha. simpl in Ha.
    eapply Qle_trans; [exact Ha|apply Q.le_max_r].
Qed.
Lemma dot_convex_minmax ws x xs :
  convex ws -> length ws = length (x :: xs) ->
  qmin_l x xs <= dot ws (x :: xs) /\ dot ws (x :: xs) <= qmax_l x xs.
Proof.
  intros Hc Hl. apply dot_convex_bounds; auto.
  pose proof (qmin_l_le x xs) as H1. pose proof (qmax_l_ge x xs) as H2.
  rewrite Forall_forall in *. intros a Ha. split; auto.
Qed.

(* weights = None: uniform weights are convex, for every number of inputs >= 1 *)
Lemma qsum_repeat q n : qsum (repeat q n) == inject_Z (Z.of_nat n) * q.
Proof.
  induction n as [|n IH].
  - simpl. ring.
  - rewrite Nat2Z.inj_succ. simpl repeat. simpl qsum. rewrite IH. unfold Z.succ. rewrite inject_Z_plus. ring.
Qed.
Lemma uniform_convex M : (M >= 1)%nat -> convex (uniform M).
Proof.
  intro HM. unfold convex, uniform, nonneg. split.
  - apply Forall_forall. intros w Hw. apply repeat_spec in Hw. subst w. unfold Qle. simpl. lia.
  - rewrite qsum_repeat. unfold Qeq, Qmult, inject_Z. simpl.
    rewrite !Z.mul_1_r.
    destruct M as [|M]; [lia|]. rewrite <- Pos.of_nat_succ, Zpos_P_of_succ_nat, Nat2Z.inj_succ. reflexivity.
Qed.
Lemma uniform_length M : length (uniform M) = M.
Proof. apply repeat_length. Qed.

(* ------------------------------------------------------------------ linear blending of one field *)
Lemma nth_map_seq {A} (f : nat -> A) n k d : (k < n)%nat -> nth k (map f (seq 0 n)) d = f k.
Proof.
  intro H. rewrite (nth_indep _ d (f 0%nat)) by (rewrite map_length, seq_length; auto).
  rewrite (map_nth f (seq 0 n) 0%nat k). rewrite seq_nth by auto. reflexivity.
Qed.

(* the value of sample k is the weighted sum of the inputs' samples k (scalars broadcast) *)
Lemma linear_field_value d cells w f v :
  blend_field d cells w MLinear f = Ok v ->
  exists vals vs xs,
    field_vals cells f = Some vals /\ all_some (map samples vals) = Some vs /\ v = QArr xs /\
    length xs = max_len vs /\ length (eff_weights w (length vals)) = length vs /\
    forall k, (k < max_len vs)%nat ->
      nth k xs 0 = dot (eff_weights w (length vals)) (map (fun x => pick x k) vs).
Proof.
  intro H. apply blend_field_linear in H. destruct H as [vals [vs [H1 [H2 [H3 [H4 H5]]]]]].
  exists vals, vs, (map (linear_at (eff_weights w (length vals)) vs) (seq 0 (max_len vs))).
  repeat split; auto.
  - rewrite map_length, seq_length. reflexivity.
  - rewrite H3. apply all_some_length in H2. rewrite H2, map_length. reflexivity.
  - intros k Hk. rewrite nth_map_seq by auto. reflexivity.
Qed.

Lemma linear_field_convex d cells w f v :
  blend_field d cells w MLinear f = Ok v ->
  forall vals, field_vals cells f = Some vals -> convex (eff_weights w (length vals)) ->
  exists vs xs, all_some (map samples vals) = Some vs /\ v = QArr xs /\ length xs = max_len vs /\
    forall k lo hi, (k < max_len vs)%nat ->
      Forall (fun x => lo <= pick x k /\ pick x k <= hi) vs ->
      lo <= nth k xs 0 /\ nth k xs 0 <= hi.
Proof.
  intros H vals Hv Hc. apply linear_field_value in H.
  destruct H as [vals' [vs [xs [H1 [H2 [H3 [H4 [H5 H6]]]]]]]].
  rewrite Hv in H1. inversion H1. subst vals'. exists vs, xs. repeat split; auto;
    rewrite (H6 k H); eapply dot_convex_bounds; eauto; try (rewrite map_length; auto);
    apply Forall_forall; intros y Hy; apply in_map_iff in Hy; destruct Hy as [x [Hx Hin]]; subst y;
    rewrite Forall_forall in H0; auto.
Qed.

Lemma linear_field_equal d cells w f v :
  blend_field d cells w MLinear f = Ok v ->
  forall vals, field_vals cells f = Some vals -> qsum (eff_weights w (length vals)) == 1 ->
  exists vs xs, all_some (map samples vals) = Some vs /\ v = QArr xs /\ length xs = max_len vs /\
    forall k c, (k < max_len vs)%nat -> Forall (fun x => pick x k == c) vs -> nth k xs 0 == c.
Proof.
  intros H vals Hv Hc. apply linear_field_value in H.
  destruct H as [vals' [vs [xs [H1 [H2 [H3 [H4 [H5 H6]]]]]]]].
  rewrite Hv in H1. inversion H1. subst vals'. exists vs, xs. repeat split; auto.
  intros k c Hk Hall. rewrite (H6 k Hk). apply dot_convex_equal; auto.
  - rewrite map_length. auto.
  - apply Forall_forall. intros y Hy. apply in_map_iff in Hy. destruct Hy as [x [Hx Hin]]. subst y.
    rewrite Forall_forall in Hall. auto.
Qed.

(* ------------------------------------------------------------------ mixture of one field *)
(* for EVERY index oracle d: output sample k is sample k of the input number d[k] *)
Lemma mixture_field_membership d cells w f v v0 rest :
  blend_field d cells w MMixture f = Ok v ->
  field_vals cells f = Some (v0 :: rest) -> is_scalar v0 = false ->
  exists xs, v = QArr xs /\ length xs = length (arr_of v0) /\ length d = length xs /\
    forall k, (k < length xs)%nat ->
      (nth k d O < length (v0 :: rest))%nat /\
      nth k xs 0 = nth k (arr_of (nth (nth k d O) (v0 :: rest) VNone)) 0 /\
      length (arr_of (nth (nth k d O) (v0 :: rest) VNone)) = length xs.
Proof.
  intros H Hv Hs. pose proof (blend_field_mixture_samples _ _ _ _ _ _ _ H Hv Hs) as P.
  cbv zeta in P. destruct P as [P1 [P2 [P3 [P4 [P5 P6]]]]].
  exists (map (mixture_at (map arr_of (v0 :: rest)) d) (seq 0 (length (arr_of v0)))).
  assert (HL : length (map (mixture_at (map arr_of (v0 :: rest)) d) (seq 0 (length (arr_of v0)))) = length (arr_of v0))
    by (rewrite map_length, seq_length; reflexivity).
  unfold draw_ok in P4. apply andb_true_iff in P4. destruct P4 as [P4a P4b]. apply Nat.eqb_eq in P4a.
  repeat split; auto; try congruence.
  - rewrite HL in H0. rewrite forallb_forall in P4b.
    apply Nat.ltb_lt. apply P4b. apply nth_In. congruence.
  - rewrite HL in H0. rewrite nth_map_seq by auto. unfold mixture_at.
    rewrite <- (map_nth arr_of (v0 :: rest) VNone). unfold arr_of at 3. simpl samples. reflexivity.
  - rewrite HL in *. rewrite Forall_forall in P5. apply P5. apply nth_In.
    rewrite forallb_forall in P4b. apply Nat.ltb_lt. apply P4b. apply nth_In. congruence.
Qed.

(* ------------------------------------------------------------------ refusals at field / cell level *)
Lemma mixture_refuses_types d cells w f v0 rest :
  field_vals cells f = Some (v0 :: rest) -> Exists (fun x => vtype x <> vtype v0) rest ->
  blend_field d cells w MMixture f = Err TypeError.
Proof.
  unfold blend_field, field_vals. intros E Hex. rewrite E. simpl is_mixture. simpl andb.
  assert (forallb (fun v => (vtype v =? vtype v0)%nat) rest = false) as ->.
  { apply not_true_is_false. intro HF. rewrite forallb_forall in HF. apply Exists_exists in Hex.
    destruct Hex as [x [Hx Hn]]. apply Hn. apply Nat.eqb_eq. auto. }
  reflexivity.
Qed.
Lemma mixture_refuses_unequal_scalars d cells w f v0 rest :
  field_vals cells f = Some (v0 :: rest) -> is_scalar v0 = true ->
  Forall (fun x => vtype x = vtype v0) rest -> Exists (fun x => val_pyeq x v0 = false) rest ->
  blend_field d cells w MMixture f = Err ValueError.
Proof.
  unfold blend_field, field_vals. intros E Hs Hall Hex. rewrite E. simpl is_mixture. simpl andb.
  assert (forallb (fun v => (vtype v =? vtype v0)%nat) rest = true) as ->.
  { apply forallb_forall. intros x Hx. rewrite Forall_forall in Hall. apply Nat.eqb_eq. auto. }
  simpl negb. cbv iota. rewrite Hs.
  assert (existsb (fun v => negb (val_pyeq v v0)) rest = true) as ->.
  { apply existsb_exists. apply Exists_exists in Hex. destruct Hex as [x [Hx Hn]]. exists x. rewrite Hn. auto. }
  reflexivity.
Qed.
Lemma linear_refuses_sample_lengths vs ws :
  Exists (fun x => length x <> max_len vs /\ length x <> 1%nat) vs -> linear_blend vs ws = Err ValueError.
Proof.
  intro Hex. unfold linear_blend.
  assert (forallb (fun v => (length v =? max_len vs)%nat || (length v =? 1)%nat) vs = false) as ->; auto.
  apply not_true_is_false. intro HF. rewrite forallb_forall in HF. apply Exists_exists in Hex.
  destruct Hex as [x [Hx [H1 H2]]]. specialize (HF x Hx). apply orb_true_iff in HF.
  destruct HF as [HF|HF]; apply Nat.eqb_eq in HF; contradiction.
Qed.
Lemma mixture_refuses_sample_lengths fl x0 rest ws d :
  probs_ok ws = true -> draw_ok (length (VArr fl x0 :: rest)) (length x0) d = true ->
  Exists (fun v => length (arr_of v) <> length x0) rest ->
  mixture_blend (VArr fl x0 :: rest) ws d = Err IndexError.
Proof.
  intros Hp Hd Hex. unfold mixture_blend.
  assert (Hq : Qle_bool (Qabs (qsum ws - 1)) qtol = true).
  { unfold probs_ok in Hp. apply andb_true_iff in Hp. tauto. }
  rewrite Hq. cbn [negb]. rewrite Hp, Hd. cbn [negb].
  assert (forallb (fun v => (length (arr_of v) =? length x0)%nat) (VArr fl x0 :: rest) = false) as ->; auto.
  apply not_true_is_false. intro HF. rewrite forallb_forall in HF. apply Exists_exists in Hex.
  destruct Hex as [x [Hx Hn]]. apply Hn. apply Nat.eqb_eq. apply HF. right. exact Hx.
Qed.
Lemma samples_refuses_weight_length d vals w m :
  length (eff_weights w (length vals)) <> length vals -> blend_samples d vals w m = Err ValueError.
Proof.
  intro H. unfold blend_samples. fold (eff_weights w (length vals)).
  destruct (length (eff_weights w (length vals)) =? length vals)%nat eqn:E; auto.
  apply Nat.eqb_eq in E. contradiction.
Qed.
Lemma cells_refuse_field_sets fo dr c0 rest w m :
  Exists (fun c => keyset_eqb (keys (cvals c0)) (keys (cvals c)) = false) rest ->
  blend_cells fo dr (c0 :: rest) w m = Err ValueError.
Proof.
  intro Hex. unfold blend_cells.
  assert (forallb (fun c => keyset_eqb (keys (cvals c0)) (keys (cvals c))) rest = false) as ->; auto.
  apply not_true_is_false. intro HF. rewrite forallb_forall in HF. apply Exists_exists in Hex.
  destruct Hex as [x [Hx Hn]]. rewrite (HF x Hx) in Hn. discriminate.
Qed.

(* ------------------------------------------------------------------ refusals of blend *)
Lemma blend_refuses_lengths fo draw t0 rest w m :
  single_check (t0 :: rest) w = None -> m <> MBad ->
  Exists (fun t => length t <> length t0) rest ->
  blend fo draw (t0 :: rest) w m = Err ValueError.
Proof.
  intros Hs Hm Hex. unfold blend. rewrite Hs.
  assert (forallb (fun t => (length t =? length t0)%nat) rest = false) as E.
  { apply not_true_is_false. intro HF. rewrite forallb_forall in HF. apply Exists_exists in Hex.
    destruct Hex as [x [Hx Hn]]. apply Hn. apply Nat.eqb_eq. auto. }
  destruct m; try congruence; cbv zeta; rewrite E; reflexivity.
Qed.
Lemma blend_refuses_cell_types fo draw t0 rest w m :
  single_check (t0 :: rest) w = None -> m <> MBad -> t0 <> [] ->
  Forall (fun t => length t = length t0) rest ->
  Exists (fun t => first_kind t <> first_kind t0) rest ->
  blend fo draw (t0 :: rest) w m = Err ValueError.
Proof.
  intros Hs Hm Hne Hall Hex. unfold blend. rewrite Hs.
  assert (forallb (fun t => (length t =? length t0)%nat) rest = true) as E1.
  { apply forallb_forall. intros x Hx. rewrite Forall_forall in Hall. apply Nat.eqb_eq. auto. }
  assert ((length t0 =? 0)%nat = false) as E2.
  { destruct t0; [congruence|reflexivity]. }
  assert (forallb (fun t => okind_eqb (first_kind t) (first_kind t0)) rest = false) as E3.
  { apply not_true_is_false. intro HF. rewrite forallb_forall in HF. apply Exists_exists in Hex.
    destruct Hex as [x [Hx Hn]]. apply Hn. specialize (HF x Hx). unfold okind_eqb in HF.
    eapply opt_eqb_eq; [|exact HF]. intros a b. destruct a, b; simpl; congruence. }
  destruct m; try congruence; cbv zeta; rewrite E1, E2, E3; reflexivity.
Qed.
(* a successful blend means every coordinate of the first triangle occurs in every triangle;
   so triangles with different coordinate sets are refused *)
Lemma blend_ok_coordinates fo draw tris w m out :
  blend fo draw tris w m = Ok out ->
  exists t0 rest, tris = t0 :: rest /\
    forall k c0, In (k, c0) (index_tri t0) ->
      Forall (fun t => exists c, In c t /\ coord_of c = k) tris.
Proof.
  intro H. apply blend_cellwise in H. destruct H as [t0 [rest [wl [Ht [Hw [Hlen Hall]]]]]].
  exists t0, rest. split; auto. intros k c0 Hin.
  apply In_nth_error in Hin. destruct Hin as [i Hi].
  assert (Hlt : (i < length out)%nat).
  { rewrite Hlen. apply nth_error_Some. congruence. }
  destruct (nth_error out i) as [o|] eqn:Eo; [|apply nth_error_None in Eo; lia].
  destruct (Hall i o Eo) as [k' [c0' [wi [cells [H1 [H2 [H3 [H4 _]]]]]]]].
  rewrite Hi in H1. inversion H1. subst k' c0'.
  clear - H4. induction H4; constructor; eauto.
Qed.
Lemma blend_refuses_first_coordinate fo draw c rest0 rest w m :
  let t0 := c :: rest0 in
  single_check (t0 :: rest) w = None -> m <> MBad ->
  Forall (fun t => length t = length t0) rest ->
  Forall (fun t => first_kind t = first_kind t0) rest ->
  (exists wl, weight_list w (length t0) = Ok wl) ->
  Exists (fun t => forall c', In c' t -> coord_of c' <> coord_of c) rest ->
  blend fo draw (t0 :: rest) w m = Err ValueError.
Proof.
  intros t0 Hs Hm HL HK [wl Hw] Hex. unfold blend. rewrite Hs.
  assert (forallb (fun t => (length t =? length t0)%nat) rest = true) as E1.
  { apply forallb_forall. intros x Hx. rewrite Forall_forall in HL. apply Nat.eqb_eq. auto. }
  assert (forallb (fun t => okind_eqb (first_kind t) (first_kind t0)) rest = true) as E3.
  { apply forallb_forall. intros x Hx. rewrite Forall_forall in HK. rewrite (HK x Hx).
    unfold okind_eqb. apply opt_eqb_refl. intros []; reflexivity. }
  assert (exists r, index_tri t0 = (coord_of c, snd (hd (coord_of c, c) (index_tri t0))) :: r) as [r Hidx].
  { unfold t0, index_tri. simpl.
    assert (forall l acc k0 c0 r0, acc = (k0, c0) :: r0 ->
              exists c1 r1, fold_left (fun acc c => cd_set (coord_of c) c acc) l acc = (k0, c1) :: r1) as P.
    { induction l as [|x l IH]; intros acc k0 c0 r0 Ha; simpl; [subst; eauto|].
      subst acc. simpl. destruct (coord_eqb (coord_of x) k0); eapply IH; reflexivity. }
    destruct (P rest0 [(coord_of c, c)] (coord_of c) c [] eq_refl) as [c1 [r1 Hf]].
    rewrite Hf. simpl. eauto. }
  assert (Hwl : exists w0 wr, wl = w0 :: wr).
  { apply weight_list_length in Hw. destruct wl; simpl in Hw; [discriminate|eauto]. }
  destruct Hwl as [w0 [wr Hwl]]. subst wl.
  assert (Hloop : blend_loop fo draw O (index_tri t0) (w0 :: wr) (map index_tri (t0 :: rest)) m = Err ValueError).
  { rewrite Hidx. apply blend_loop_first_missing.
    apply Exists_exists in Hex. destruct Hex as [t [Ht Hn]].
    apply in_map_iff. exists (index_tri t). split; [|right; apply in_map; exact Ht].
    destruct (cd_get (coord_of c) (index_tri t)) as [c'|] eqn:EG; auto.
    apply cd_get_in in EG. apply index_tri_in in EG. destruct EG as [Hin Hk].
    exfalso. apply (Hn c' Hin). auto. }
  destruct m; try congruence; cbv zeta; rewrite E1, E3; simpl length; simpl andb; cbv iota;
    simpl negb; cbv iota; unfold t0 in Hw; simpl length in Hw; rewrite Hw; simpl bind; exact Hloop.
Qed.
