(** C14 -- the key lemma: under [frame_spec_ok] the grouping key of the readers separates any two
    rows that differ in a coordinate or in any metadata / detail column (this is what F8 broke),
    and contains nothing but coordinates, metadata and detail columns. *)
From Coq Require Import ZArith List Bool Lia ZifyBool.
From Bermuda Require Import Model.Base Model.Frame Proofs.FrameLib.
Import ListNotations.
Local Open Scope Z_scope.

Lemma keypart_eqb_eq a b : keypart_eqb a b = true <-> a = b.
Proof.
  destruct a, b; cbn; try (split; congruence); rewrite str_eqb_eq; split; congruence.
Qed.

Lemma covered_in_key parts cols dcols lcols c :
  covers parts c = true -> In c cols -> In c (key_cols parts cols dcols lcols).
Proof.
  unfold covers, key_cols. intros H Hc. apply in_flat_map. apply orb_true_iff in H as [H|H];
    apply existsb_exists in H as [p [Hp E]]; apply keypart_eqb_eq in E; subst p.
  - exists (KCol c). split; auto. cbn; auto.
  - exists (KOpt c). split; auto. rewrite (proj2 (mem_In c cols) Hc). cbn; auto.
Qed.
Lemma detail_in_key parts cols dcols lcols c :
  existsb (keypart_eqb KDetail) parts = true -> In c dcols -> In c (key_cols parts cols dcols lcols).
Proof.
  intros H Hc. apply existsb_exists in H as [p [Hp E]]. apply keypart_eqb_eq in E; subst p.
  apply in_flat_map. exists KDetail; auto.
Qed.
Lemma loss_in_key parts cols dcols lcols c :
  existsb (keypart_eqb KLoss) parts = true -> In c lcols -> In c (key_cols parts cols dcols lcols).
Proof.
  intros H Hc. apply existsb_exists in H as [p [Hp E]]. apply keypart_eqb_eq in E; subst p.
  apply in_flat_map. exists KLoss; auto.
Qed.
Lemma key_cols_allowed allowed parts cols dcols lcols c :
  forallb (part_allowed allowed) parts = true ->
  In c (key_cols parts cols dcols lcols) -> In c allowed \/ In c dcols \/ In c lcols.
Proof.
  intros H Hc. apply in_flat_map in Hc as [p [Hp Hc]].
  rewrite forallb_forall in H. specialize (H p Hp). destruct p; cbn in *.
  - destruct Hc as [<-|[]]. left. apply mem_In; auto.
  - destruct (mem c0 cols); cbn in Hc; [|tauto]. destruct Hc as [<-|[]]. left. apply mem_In; auto.
  - auto.
  - auto.
Qed.

Lemma row_key_get kc r1 r2 c : row_key kc r1 = row_key kc r2 -> In c kc -> get c r1 = get c r2.
Proof.
  unfold row_key. induction kc as [|k kc IH]; cbn; [tauto|]. intros E [->|H]; inversion E; auto.
Qed.
Lemma row_key_ext kc r1 r2 : (forall c, In c kc -> get c r1 = get c r2) -> row_key kc r1 = row_key kc r2.
Proof. intros H. unfold row_key. apply map_ext_in. exact H. Qed.
Lemma get_absent c (r : row) : ~ In c (keys r) -> get c r = TNaN.
Proof. intros H. unfold get. rewrite assoc_notin; auto. Qed.

Definition coord_cols : list str := [c_ps; c_pe; c_ev].

(* the conjuncts of frame_spec_ok that the proofs use *)
Lemma spec_ok_wide sp : frame_spec_ok sp = true ->
  forallb (covers (fs_wide_key sp)) (coord_cols ++ meta_col_names) = true
  /\ existsb (keypart_eqb KDetail) (fs_wide_key sp) = true
  /\ forallb (part_allowed (coord_cols ++ meta_col_names)) (fs_wide_key sp) = true
  /\ fs_wide_sort sp = [c_scenario].
Proof.
  unfold frame_spec_ok. intros H. repeat (apply andb_prop in H as [H ?]).
  repeat split; auto. apply (proj1 (list_eqb_eq _ str_eqb_eq _ _)); auto.
Qed.
Lemma spec_ok_long sp : frame_spec_ok sp = true ->
  forallb (covers (fs_long_key sp)) ([c_ps; c_pe; c_ev; c_field] ++ meta_col_names) = true
  /\ existsb (keypart_eqb KDetail) (fs_long_key sp) = true
  /\ existsb (keypart_eqb KLoss) (fs_long_key sp) = true
  /\ forallb (part_allowed ([c_ps; c_pe; c_ev; c_field] ++ meta_col_names)) (fs_long_key sp) = true
  /\ fs_long_sort sp = [c_scenario].
Proof.
  unfold frame_spec_ok. intros H. repeat (apply andb_prop in H as [H ?]).
  repeat split; auto. apply (proj1 (list_eqb_eq _ str_eqb_eq _ _)); auto.
Qed.
Lemma spec_ok_consts sp : frame_spec_ok sp = true ->
  fs_index_cum sp = [c_ps; c_pe; c_ev]
  /\ (forall c, In c (fs_core sp) <-> In c ([c_ps; c_pe; c_ev; c_prev] ++ meta_col_names ++ [c_scenario])).
Proof.
  unfold frame_spec_ok. intros H. repeat (apply andb_prop in H as [H ?]).
  split. { apply (proj1 (list_eqb_eq _ str_eqb_eq _ _)); auto. }
  intros c. split; intros Hc.
  - match goal with X : forallb _ (fs_core sp) = true |- _ => rewrite forallb_forall in X; apply mem_In, X, Hc end.
  - match goal with X : forallb (fun c => mem c (fs_core sp)) _ = true |- _ =>
      rewrite forallb_forall in X; apply mem_In, X, Hc end.
Qed.

(** KEY LEMMA (wide): two rows over the same columns with equal grouping keys agree on every
    coordinate column, every metadata column and every detail column -- whatever attribute
    distinguishes two slices, it is part of the key. *)
Theorem wide_key_separates sp cols dcols lcols (r1 r2 : row) :
  frame_spec_ok sp = true -> keys r1 = cols -> keys r2 = cols ->
  row_key (key_cols (fs_wide_key sp) cols dcols lcols) r1
  = row_key (key_cols (fs_wide_key sp) cols dcols lcols) r2 ->
  forall c, In c (coord_cols ++ meta_col_names ++ dcols) -> get c r1 = get c r2.
Proof.
  intros Hok K1 K2 E c Hc. destruct (spec_ok_wide sp Hok) as (Hcov & Hdet & _ & _).
  destruct (in_dec (list_eq_dec Z.eq_dec) c cols) as [Hin|Hout].
  - apply (row_key_get _ _ _ _ E). rewrite app_assoc in Hc. apply in_app_or in Hc as [Hc|Hc].
    + apply covered_in_key; auto. rewrite forallb_forall in Hcov. apply Hcov; auto.
    + apply detail_in_key; auto.
  - rewrite !get_absent; auto; rewrite ?K1, ?K2; auto.
Qed.

Theorem long_key_separates sp cols dcols lcols (r1 r2 : row) :
  frame_spec_ok sp = true -> keys r1 = cols -> keys r2 = cols ->
  row_key (key_cols (fs_long_key sp) cols dcols lcols) r1
  = row_key (key_cols (fs_long_key sp) cols dcols lcols) r2 ->
  forall c, In c ([c_ps; c_pe; c_ev; c_field] ++ meta_col_names ++ dcols ++ lcols) -> get c r1 = get c r2.
Proof.
  intros Hok K1 K2 E c Hc. destruct (spec_ok_long sp Hok) as (Hcov & Hdet & Hloss & _ & _).
  destruct (in_dec (list_eq_dec Z.eq_dec) c cols) as [Hin|Hout].
  - apply (row_key_get _ _ _ _ E). rewrite app_assoc in Hc. apply in_app_or in Hc as [Hc|Hc].
    + apply covered_in_key; auto. rewrite forallb_forall in Hcov. apply Hcov; auto.
    + apply in_app_or in Hc as [Hc|Hc]; [apply detail_in_key | apply loss_in_key]; auto.
  - rewrite !get_absent; auto; rewrite ?K1, ?K2; auto.
Qed.

(** consequence: equal keys give equal reconstructed metadata and equal coordinates *)
Lemma details_of_ext cols r1 r2 :
  (forall c, In c cols -> get c r1 = get c r2) -> details_of cols r1 = details_of cols r2.
Proof. intros H. unfold details_of. apply flat_map_ext_in'. intros c Hc. rewrite H; auto. Qed.

Theorem wide_key_same_meta sp cols dcols lcols (r1 r2 : row) :
  frame_spec_ok sp = true -> keys r1 = cols -> keys r2 = cols -> incl lcols dcols ->
  row_key (key_cols (fs_wide_key sp) cols dcols lcols) r1
  = row_key (key_cols (fs_wide_key sp) cols dcols lcols) r2 ->
  meta_of_row (filter (not_in lcols) dcols) lcols r1 = meta_of_row (filter (not_in lcols) dcols) lcols r2
  /\ get c_ps r1 = get c_ps r2 /\ get c_pe r1 = get c_pe r2 /\ get c_ev r1 = get c_ev r2.
Proof.
  intros Hok K1 K2 Hl E.
  pose proof (wide_key_separates sp cols dcols lcols r1 r2 Hok K1 K2 E) as H.
  assert (Hm : forall c, In c meta_col_names -> get c r1 = get c r2).
  { intros c Hc. apply H. apply in_or_app; right. apply in_or_app; left; auto. }
  split; [|repeat split; apply H; cbn; auto].
  unfold meta_of_row.
  rewrite (Hm c_risk_basis), (Hm c_country), (Hm c_currency), (Hm c_reinsurance_basis),
          (Hm c_loss_definition), (Hm c_pol) by (cbn; auto 10).
  f_equal; apply details_of_ext; intros c Hc; apply H; apply in_or_app; right; apply in_or_app; right.
  - apply filter_In in Hc as [Hc _]; auto.
  - apply Hl; auto.
Qed.
