(** C14 -- "every slice stays separate": a table made of one non-empty block of rows per cell
    (the rows of a block agree on all coordinate / metadata / detail columns, two different blocks
    differ in at least one of them) is grouped by the readers into exactly those blocks, in order,
    for any number of cells, slices and scenarios. *)
From Coq Require Import ZArith List Bool Lia ZifyBool.
From Bermuda Require Import Model.Base Model.Frame Proofs.FrameLib Proofs.FrameKey.
Import ListNotations.
Local Open Scope Z_scope.

Definition rep (b : list row) : row := hd [] b.

Lemma flat_map_id {A} (l : list (list A)) : flat_map (fun x => x) l = concat l.
Proof. induction l; cbn; congruence. Qed.

Section Generic.
  Variables (kc needed : list str).
  Hypothesis separates : forall r1 r2, row_key kc r1 = row_key kc r2 ->
                         forall c, In c needed -> get c r1 = get c r2.

  Lemma blocks_generic (blocks : list (list row)) :
    (forall b, In b blocks -> b <> []) ->
    (forall b r, In b blocks -> In r b -> forall c, In c kc -> get c r = get c (rep b)) ->
    (forall i j, (i < j < length blocks)%nat ->
       exists c, In c needed /\ get c (rep (nth i blocks [])) <> get c (rep (nth j blocks []))) ->
    map snd (group_by key_eqb (row_key kc) (concat blocks)) = blocks.
  Proof.
    intros Hne Hagree Hdiff.
    rewrite <- flat_map_id.
    rewrite (group_by_blocks key_eqb key_eqb_eq (row_key kc) (fun b => b) (fun b => row_key kc (rep b))).
    - rewrite map_map. cbn. apply map_id.
    - exact Hne.
    - intros b Hb r Hr. apply row_key_ext. intros c Hc. apply Hagree; auto.
    - apply (proj2 (NoDup_nth (map (fun b => row_key kc (rep b)) blocks) [])).
      rewrite map_length. intros i j Hi Hj E.
      destruct (Nat.eq_dec i j) as [|Hij]; auto. exfalso.
      assert (Hnth : forall k, (k < length blocks)%nat ->
                nth k (map (fun b => row_key kc (rep b)) blocks) [] = row_key kc (rep (nth k blocks []))).
      { intros k Hk. rewrite (nth_indep _ [] (row_key kc (rep []))) by (rewrite map_length; auto).
        apply (map_nth (fun b => row_key kc (rep b))). }
      rewrite !Hnth in E by auto.
      destruct (Nat.lt_ge_cases i j) as [Hlt|Hge].
      + destruct (Hdiff i j (conj Hlt Hj)) as [c [Hc Hd]]. apply Hd. apply separates; auto.
      + assert (Hlt : (j < i)%nat) by lia.
        destruct (Hdiff j i (conj Hlt Hi)) as [c [Hc Hd]]. apply Hd. symmetry. apply separates; auto.
  Qed.
End Generic.

(** wide reader: the groups are the cells *)
Theorem wide_groups_are_blocks sp cols dcols lcols (blocks : list (list row)) :
  frame_spec_ok sp = true -> incl lcols dcols ->
  (forall b, In b blocks -> b <> []) ->
  (forall b r, In b blocks -> In r b -> keys r = cols) ->
  (* the rows of one block differ at most outside the coordinate, metadata and detail columns
     (i.e. in `scenario` and in the field columns) *)
  (forall b r, In b blocks -> In r b ->
     forall c, In c (coord_cols ++ meta_col_names ++ dcols) -> get c r = get c (rep b)) ->
  (* two different blocks differ in a coordinate, a metadata attribute or a detail -- ANY of them *)
  (forall i j, (i < j < length blocks)%nat ->
     exists c, In c (coord_cols ++ meta_col_names ++ dcols)
               /\ get c (rep (nth i blocks [])) <> get c (rep (nth j blocks []))) ->
  map snd (group_by key_eqb (row_key (key_cols (fs_wide_key sp) cols dcols lcols)) (concat blocks)) = blocks.
Proof.
  intros Hok Hl Hne Hcols Hagree Hdiff.
  destruct (spec_ok_wide sp Hok) as (_ & _ & Hallowed & _).
  set (kc := key_cols (fs_wide_key sp) cols dcols lcols).
  assert (Hsep : forall r1 r2, keys r1 = cols -> keys r2 = cols -> row_key kc r1 = row_key kc r2 ->
            forall c, In c (coord_cols ++ meta_col_names ++ dcols) -> get c r1 = get c r2).
  { intros r1 r2 K1 K2 E. apply (wide_key_separates sp cols dcols lcols r1 r2 Hok K1 K2 E). }
  (* restrict the generic lemma to rows over [cols]: go through group_by_blocks directly *)
  rewrite <- flat_map_id.
  rewrite (group_by_blocks key_eqb key_eqb_eq (row_key kc) (fun b => b) (fun b => row_key kc (rep b))).
  - rewrite map_map. cbn. apply map_id.
  - exact Hne.
  - intros b Hb r Hr. apply row_key_ext. intros c Hc. apply Hagree; auto.
    destruct (key_cols_allowed _ _ _ _ _ _ Hallowed Hc) as [H|[H|H]].
    + rewrite app_assoc. apply in_or_app; left; auto.
    + apply in_or_app; right; apply in_or_app; right; auto.
    + apply in_or_app; right; apply in_or_app; right; apply Hl; auto.
  - apply (proj2 (NoDup_nth (map (fun b => row_key kc (rep b)) blocks) [])).
    rewrite map_length. intros i j Hi Hj E.
    destruct (Nat.eq_dec i j) as [|Hij]; auto. exfalso.
    assert (Hnth : forall k, (k < length blocks)%nat ->
              nth k (map (fun b => row_key kc (rep b)) blocks) [] = row_key kc (rep (nth k blocks []))).
    { intros k Hk. rewrite (nth_indep _ [] (row_key kc (rep []))) by (rewrite map_length; auto).
      apply (map_nth (fun b => row_key kc (rep b))). }
    rewrite !Hnth in E by auto.
    assert (Hrep : forall k, (k < length blocks)%nat -> keys (rep (nth k blocks [])) = cols).
    { intros k Hk. pose proof (nth_In blocks [] Hk) as Hin. specialize (Hne _ Hin).
      apply (Hcols (nth k blocks [])); auto. unfold rep. destruct (nth k blocks []); [congruence|cbn; auto]. }
    destruct (Nat.lt_ge_cases i j) as [Hlt|Hge].
    + destruct (Hdiff i j (conj Hlt Hj)) as [c [Hc Hd]]. apply Hd. apply Hsep; auto.
    + assert (Hlt : (j < i)%nat) by lia.
      destruct (Hdiff j i (conj Hlt Hi)) as [c [Hc Hd]]. apply Hd. symmetry. apply Hsep; auto.
Qed.

(** long reader: the groups are the (cell, field) pairs *)
Theorem long_groups_are_blocks sp cols dcols lcols (blocks : list (list row)) :
  frame_spec_ok sp = true ->
  (forall b, In b blocks -> b <> []) ->
  (forall b r, In b blocks -> In r b -> keys r = cols) ->
  (forall b r, In b blocks -> In r b ->
     forall c, In c ([c_ps; c_pe; c_ev; c_field] ++ meta_col_names ++ dcols ++ lcols) -> get c r = get c (rep b)) ->
  (forall i j, (i < j < length blocks)%nat ->
     exists c, In c ([c_ps; c_pe; c_ev; c_field] ++ meta_col_names ++ dcols ++ lcols)
               /\ get c (rep (nth i blocks [])) <> get c (rep (nth j blocks []))) ->
  map snd (group_by key_eqb (row_key (key_cols (fs_long_key sp) cols dcols lcols)) (concat blocks)) = blocks.
Proof.
  intros Hok Hne Hcols Hagree Hdiff.
  destruct (spec_ok_long sp Hok) as (_ & _ & _ & Hallowed & _).
  set (kc := key_cols (fs_long_key sp) cols dcols lcols).
  assert (Hsep : forall r1 r2, keys r1 = cols -> keys r2 = cols -> row_key kc r1 = row_key kc r2 ->
            forall c, In c ([c_ps; c_pe; c_ev; c_field] ++ meta_col_names ++ dcols ++ lcols) -> get c r1 = get c r2).
  { intros r1 r2 K1 K2 E. apply (long_key_separates sp cols dcols lcols r1 r2 Hok K1 K2 E). }
  rewrite <- flat_map_id.
  rewrite (group_by_blocks key_eqb key_eqb_eq (row_key kc) (fun b => b) (fun b => row_key kc (rep b))).
  - rewrite map_map. cbn. apply map_id.
  - exact Hne.
  - intros b Hb r Hr. apply row_key_ext. intros c Hc. apply Hagree; auto.
    destruct (key_cols_allowed _ _ _ _ _ _ Hallowed Hc) as [H|[H|H]].
    + rewrite app_assoc. apply in_or_app; left; auto.
    + apply in_or_app; right; apply in_or_app; right; apply in_or_app; left; auto.
    + apply in_or_app; right; apply in_or_app; right; apply in_or_app; right; auto.
  - apply (proj2 (NoDup_nth (map (fun b => row_key kc (rep b)) blocks) [])).
    rewrite map_length. intros i j Hi Hj E.
    destruct (Nat.eq_dec i j) as [|Hij]; auto. exfalso.
    assert (Hnth : forall k, (k < length blocks)%nat ->
              nth k (map (fun b => row_key kc (rep b)) blocks) [] = row_key kc (rep (nth k blocks []))).
    { intros k Hk. rewrite (nth_indep _ [] (row_key kc (rep []))) by (rewrite map_length; auto).
      apply (map_nth (fun b => row_key kc (rep b))). }
    rewrite !Hnth in E by auto.
    assert (Hrep : forall k, (k < length blocks)%nat -> keys (rep (nth k blocks [])) = cols).
    { intros k Hk. pose proof (nth_In blocks [] Hk) as Hin. specialize (Hne _ Hin).
      apply (Hcols (nth k blocks [])); auto. unfold rep. destruct (nth k blocks []); [congruence|cbn; auto]. }
    destruct (Nat.lt_ge_cases i j) as [Hlt|Hge].
    + destruct (Hdiff i j (conj Hlt Hj)) as [c [Hc Hd]]. apply Hd. apply Hsep; auto.
    + assert (Hlt : (j < i)%nat) by lia.
      destruct (Hdiff j i (conj Hlt Hi)) as [c [Hc Hd]]. apply Hd. symmetry. apply Hsep; auto.
Qed.
