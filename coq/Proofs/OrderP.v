(** Order theory of the comparison combinators of Model/Order.v and uniqueness of sorting. *)
From Coq Require Import ZArith List Bool Lia Permutation Sorted.
From Bermuda Require Import Model.Base Model.Order.
Import ListNotations.
Local Open Scope Z_scope.

(** A partial comparison that is a strict total order wherever it is defined. *)
Record OrdOK {A} (o : ocmp A) : Prop := {
  o_refl : forall a, o a a = Some Eq;
  o_eq : forall a b, o a b = Some Eq -> a = b;
  o_opp : forall a b c, o a b = Some c -> o b a = Some (CompOpp c);
  o_trans : forall a b c, o a b = Some Lt -> o b c = Some Lt -> o a c = Some Lt }.

Lemma zc_ok : OrdOK zc.
Proof.
  unfold zc, total. split.
  - intros a. now rewrite Z.compare_refl.
  - intros a b H. injection H as H. now apply Z.compare_eq.
  - intros a b c H. injection H as H. subst c. now rewrite (Z.compare_antisym a b).
  - intros a b c H1 H2. injection H1 as H1. injection H2 as H2. f_equal.
    rewrite Z.compare_lt_iff in *. lia.
Qed.

Section Lex2.
  Context {A B} (oa : ocmp A) (ob : ocmp B) (Ha : OrdOK oa) (Hb : OrdOK ob).
  Lemma lex2_ok : OrdOK (lex2 oa ob).
  Proof.
    split.
    - intros [a b]. unfold lex2. cbn. rewrite (o_refl _ Ha). apply (o_refl _ Hb).
    - intros [a b] [a' b']. unfold lex2. cbn.
      destruct (oa a a') as [[| |]|] eqn:E; try discriminate.
      intros H. apply (o_eq _ Ha) in E. apply (o_eq _ Hb) in H. now subst.
    - intros [a b] [a' b'] c. unfold lex2. cbn.
      destruct (oa a a') as [[| |]|] eqn:E; try discriminate; intros H.
      + rewrite (o_opp _ Ha _ _ _ E). cbn. now apply (o_opp _ Hb).
      + injection H as <-. now rewrite (o_opp _ Ha _ _ _ E).
      + injection H as <-. now rewrite (o_opp _ Ha _ _ _ E).
    - intros [a b] [a' b'] [a'' b'']. unfold lex2. cbn.
      destruct (oa a a') as [[| |]|] eqn:E1; try discriminate;
      destruct (oa a' a'') as [[| |]|] eqn:E2; try discriminate; intros H1 H2.
      + apply (o_eq _ Ha) in E1, E2. subst. rewrite (o_refl _ Ha). now apply (o_trans _ Hb) with b'.
      + apply (o_eq _ Ha) in E1. subst. now rewrite E2.
      + apply (o_eq _ Ha) in E2. subst. now rewrite E1.
      + now rewrite (o_trans _ Ha _ _ _ E1 E2).
  Qed.
End Lex2.

Section LexL.
  Context {A} (o : ocmp A) (Ho : OrdOK o).
  Lemma lexl_ok : OrdOK (lexl o).
  Proof.
    split.
    - induction a as [|x r IH]; cbn; [reflexivity|]. now rewrite (o_refl _ Ho).
    - induction a as [|x r IH]; intros [|y s]; cbn; try discriminate; [reflexivity|].
      destruct (o x y) as [[| |]|] eqn:E; try discriminate.
      intros H. apply (o_eq _ Ho) in E. apply IH in H. now subst.
    - induction a as [|x r IH]; intros [|y s] c; cbn; try (intros H; injection H as <-; reflexivity).
      destruct (o x y) as [[| |]|] eqn:E; try discriminate; intros H.
      + rewrite (o_opp _ Ho _ _ _ E). cbn. now apply IH.
      + injection H as <-. now rewrite (o_opp _ Ho _ _ _ E).
      + injection H as <-. now rewrite (o_opp _ Ho _ _ _ E).
    - induction a as [|x r IH]; intros [|y s] [|z t]; cbn; try discriminate; try reflexivity.
      destruct (o x y) as [[| |]|] eqn:E1; try discriminate;
      destruct (o y z) as [[| |]|] eqn:E2; try discriminate; intros H1 H2.
      + apply (o_eq _ Ho) in E1, E2. subst. rewrite (o_refl _ Ho). now apply IH with s.
      + apply (o_eq _ Ho) in E1. subst. now rewrite E2.
      + apply (o_eq _ Ho) in E2. subst. now rewrite E1.
      + now rewrite (o_trans _ Ho _ _ _ E1 E2).
  Qed.
End LexL.

Section Opt.
  Context {A} (o : ocmp A) (Ho : OrdOK o).
  Lemma opt_first_ok : OrdOK (opt_first o).
  Proof.
    split.
    - intros [a|]; cbn; [apply (o_refl _ Ho)|reflexivity].
    - intros [a|] [b|]; cbn; try discriminate; [|reflexivity].
      intros H. f_equal. now apply (o_eq _ Ho).
    - intros [a|] [b|] c; cbn; try (intros H; injection H as <-; reflexivity). apply (o_opp _ Ho).
    - intros [a|] [b|] [c|]; cbn; try discriminate; try reflexivity. apply (o_trans _ Ho).
  Qed.
  Lemma opt_last_ok : OrdOK (opt_last o).
  Proof.
    split.
    - intros [a|]; cbn; [apply (o_refl _ Ho)|reflexivity].
    - intros [a|] [b|]; cbn; try discriminate; [|reflexivity].
      intros H. f_equal. now apply (o_eq _ Ho).
    - intros [a|] [b|] c; cbn; try (intros H; injection H as <-; reflexivity). apply (o_opp _ Ho).
    - intros [a|] [b|] [c|]; cbn; try discriminate; try reflexivity. apply (o_trans _ Ho).
  Qed.
End Opt.

Lemma strc_ok : OrdOK strc.
Proof. apply lexl_ok, zc_ok. Qed.

Lemma atomc_ok : OrdOK atomc.
Proof.
  split.
  - intros [s|n|d|]; cbn; [apply (o_refl _ strc_ok) | apply (o_refl _ zc_ok) ..|reflexivity].
  - intros [s|n|d|] [s'|n'|d'|]; cbn; try discriminate; intros H; try reflexivity; f_equal.
    + now apply (o_eq _ strc_ok). + now apply (o_eq _ zc_ok). + now apply (o_eq _ zc_ok).
  - intros [s|n|d|] [s'|n'|d'|] c; cbn; try discriminate.
    + apply (o_opp _ strc_ok). + apply (o_opp _ zc_ok). + apply (o_opp _ zc_ok).
    + intros H; injection H as <-; reflexivity.
  - intros [s|n|d|] [s'|n'|d'|] [s''|n''|d''|]; cbn; try discriminate.
    + apply (o_trans _ strc_ok). + apply (o_trans _ zc_ok). + apply (o_trans _ zc_ok).
Qed.

Lemma itemsc_ok : OrdOK itemsc.
Proof. apply lexl_ok, lex2_ok; [apply strc_ok | apply atomc_ok]. Qed.

(** transport along an injective-or-not projection: everything but Leibniz equality *)
Record OrdOKf {A K} (f : A -> K) (o : ocmp A) : Prop := {
  f_refl : forall a, o a a = Some Eq;
  f_eq : forall a b, o a b = Some Eq -> f a = f b;
  f_eq' : forall a b, f a = f b -> o a b = Some Eq;
  f_opp : forall a b c, o a b = Some c -> o b a = Some (CompOpp c);
  f_trans : forall a b c, o a b = Some Lt -> o b c = Some Lt -> o a c = Some Lt;
  f_eq_l : forall a a' b, f a = f a' -> o a b = o a' b;
  f_eq_r : forall a b b', f b = f b' -> o a b = o a b' }.

Lemma proj_ok {A K} (f : A -> K) (ok : ocmp K) (Hk : OrdOK ok) :
  OrdOKf f (fun a b => ok (f a) (f b)).
Proof.
  split; intros.
  - apply (o_refl _ Hk).
  - now apply (o_eq _ Hk).
  - rewrite H. apply (o_refl _ Hk).
  - now apply (o_opp _ Hk).
  - now apply (o_trans _ Hk) with (f b).
  - now rewrite H.
  - now rewrite H.
Qed.

Lemma mkey_tuple_inj a b : mkey_tuple a = mkey_tuple b -> a = b.
Proof. destruct a, b. unfold mkey_tuple. cbn. intros H. injection H as -> -> -> ->. reflexivity. Qed.

Lemma mkeyc_ok : OrdOK mkeyc.
Proof.
  assert (H : OrdOK (lex2 (lexl (opt_first strc)) (lex2 (opt_last zc) (lex2 itemsc itemsc)))).
  { apply lex2_ok; [apply lexl_ok, opt_first_ok, strc_ok|].
    apply lex2_ok; [apply opt_last_ok, zc_ok|]. apply lex2_ok; apply itemsc_ok. }
  unfold mkeyc. split.
  - intros a. apply (o_refl _ H).
  - intros a b E. apply mkey_tuple_inj. now apply (o_eq _ H).
  - intros a b c. apply (o_opp _ H).
  - intros a b c. apply (o_trans _ H).
Qed.

Lemma meta_cmp_ok : OrdOKf canonical_key meta_cmp.
Proof. exact (proj_ok canonical_key mkeyc mkeyc_ok). Qed.

Lemma cell_cmp_ok : OrdOKf cell_tuple cell_cmp.
Proof.
  apply (proj_ok cell_tuple (lex2 mkeyc (lexl zc))).
  apply lex2_ok; [apply mkeyc_ok | apply lexl_ok, zc_ok].
Qed.

(** ** Sorting: insertion sort w.r.t. a comparison that is total on the elements at hand *)
Section Sort.
  Context {A K} (f : A -> K) (o : ocmp A) (Ho : OrdOKf f o).
  Definition ltb (a b : A) : bool := match o a b with Some Lt => true | _ => false end.
  Fixpoint ins (x : A) (l : list A) : list A :=
    match l with
    | [] => [x]
    | y :: r => if ltb x y then x :: l else y :: ins x r
    end.
  Definition isort (l : list A) : list A := fold_left (fun acc c => ins c acc) l [].

  (* every pair of the list is comparable (no TypeError whichever pair the sort looks at) *)
  Definition comparable (l : list A) : Prop := forall a b, In a l -> In b l -> o a b <> None.
  (* no two distinct elements are order-equivalent *)
  Definition separated (l : list A) : Prop := forall a b, In a l -> In b l -> o a b = Some Eq -> a = b.
  Definition le (a b : A) : Prop := o b a <> Some Lt.

  Lemma ins_perm x l : Permutation (x :: l) (ins x l).
  Proof.
    induction l as [|y r IH]; cbn; [reflexivity|].
    destruct (ltb x y); [reflexivity|].
    rewrite perm_swap. now constructor.
  Qed.

  Lemma isort_perm_acc l : forall acc, Permutation (l ++ acc) (fold_left (fun acc c => ins c acc) l acc).
  Proof.
    induction l as [|x r IH]; intros acc; cbn; [reflexivity|].
    rewrite <- IH. rewrite <- ins_perm. apply Permutation_middle.
  Qed.
  Lemma isort_perm l : Permutation l (isort l).
  Proof. unfold isort. rewrite <- isort_perm_acc. now rewrite app_nil_r. Qed.

  Lemma le_trans a b c : o a b <> None -> o b c <> None -> o a c <> None ->
    le a b -> le b c -> le a c.
  Proof.
    unfold le. intros Cab Cbc Cac Hab Hbc Hca.
    (* c < a.  If b < c .. contradiction ; so c <= b, a <= b? *)
    destruct (o a b) as [[| |]|] eqn:Eab; try congruence.
    - (* a ~ b *) apply (f_eq _ _ Ho) in Eab. rewrite (f_eq_r _ _ Ho c a b Eab) in Hca. contradiction.
    - (* a < b *) destruct (o b c) as [[| |]|] eqn:Ebc; try congruence.
      + apply (f_eq _ _ Ho) in Ebc. rewrite <- (f_eq_l _ _ Ho b c a Ebc) in Hca.
        apply (f_opp _ _ Ho) in Eab. cbn in Eab. congruence.
      + pose proof (f_trans _ _ Ho _ _ _ Eab Ebc) as Hac.
        apply (f_opp _ _ Ho) in Hac. cbn in Hac. congruence.
      + apply (f_opp _ _ Ho) in Ebc. cbn in Ebc. contradiction.
    - apply (f_opp _ _ Ho) in Eab. cbn in Eab. contradiction.
  Qed.

  Lemma ins_sorted x l : comparable (x :: l) ->
    StronglySorted le l -> StronglySorted le (ins x l).
  Proof.
    intros Hc Hs. induction Hs as [|y r Hs IH Hy]; cbn.
    - constructor; [constructor|constructor].
    - unfold ltb. destruct (o x y) as [[| |]|] eqn:E.
      + (* x ~ y : goes after y *)
        constructor.
        * apply IH. intros a b Ha Hb. apply Hc; cbn in *; intuition.
        * rewrite Forall_forall. intros z Hz.
          apply (Permutation_in _ (Permutation_sym (ins_perm x r))) in Hz. destruct Hz as [<-|Hz].
          -- unfold le. congruence.
          -- rewrite Forall_forall in Hy. now apply Hy.
      + (* x < y *)
        constructor; [constructor; assumption|].
        constructor.
        * unfold le. apply (f_opp _ _ Ho) in E. cbn in E. congruence.
        * rewrite Forall_forall in *. intros z Hz.
          apply le_trans with y.
          -- apply Hc; cbn; auto.
          -- apply Hc; cbn; auto.
          -- apply Hc; cbn; auto.
          -- unfold le. apply (f_opp _ _ Ho) in E. cbn in E. congruence.
          -- now apply Hy.
      + constructor.
        * apply IH. intros a b Ha Hb. apply Hc; cbn in *; intuition.
        * rewrite Forall_forall. intros z Hz.
          apply (Permutation_in _ (Permutation_sym (ins_perm x r))) in Hz. destruct Hz as [<-|Hz].
          -- unfold le. congruence.
          -- rewrite Forall_forall in Hy. now apply Hy.
      + exfalso. apply (Hc x y); cbn; auto.
  Qed.

  Lemma comparable_perm l l' : Permutation l l' -> comparable l -> comparable l'.
  Proof.
    intros P H a b Ha Hb. apply H; eapply Permutation_in; try apply Permutation_sym; eassumption.
  Qed.
  Lemma separated_perm l l' : Permutation l l' -> separated l -> separated l'.
  Proof.
    intros P H a b Ha Hb. apply H; eapply Permutation_in; try apply Permutation_sym; eassumption.
  Qed.

  Lemma fold_sorted l : forall acc, comparable (l ++ acc) -> StronglySorted le acc ->
    StronglySorted le (fold_left (fun acc c => ins c acc) l acc).
  Proof.
    induction l as [|x r IH]; intros acc Hc Hs; cbn; [exact Hs|].
    apply IH.
    - eapply comparable_perm; [|exact Hc]. cbn.
      rewrite <- ins_perm. apply Permutation_middle.
    - apply ins_sorted; [|exact Hs].
      intros a b Ha Hb. apply Hc; cbn in *; rewrite in_app_iff; cbn; intuition.
  Qed.
  Lemma isort_sorted l : comparable l -> StronglySorted le (isort l).
  Proof. intros Hc. apply fold_sorted; [now rewrite app_nil_r | constructor]. Qed.

  (** Two sorted arrangements of the same separated, comparable elements coincide. *)
  Lemma sorted_perm_unique l : forall l', Permutation l l' -> comparable l -> separated l ->
    StronglySorted le l -> StronglySorted le l' -> l = l'.
  Proof.
    induction l as [|x r IH]; intros l' P Hc Hsep Hs Hs'.
    - apply Permutation_nil in P. now subst.
    - destruct l' as [|y s]; [apply Permutation_sym, Permutation_nil in P; discriminate|].
      assert (x = y) as <-.
      { inversion Hs as [|? ? _ Hx]; subst. inversion Hs' as [|? ? _ Hy]; subst.
        rewrite Forall_forall in Hx, Hy.
        assert (Iy : In y (x :: r)) by (eapply Permutation_in; [apply Permutation_sym, P|cbn; auto]).
        assert (Ix : In x (y :: s)) by (eapply Permutation_in; [apply P|cbn; auto]).
        destruct Iy as [E|Iy]; [assumption|]. destruct Ix as [E|Ix]; [now symmetry|].
        apply Hsep; cbn; auto.
        specialize (Hx _ Iy). specialize (Hy _ Ix). unfold le in *.
        destruct (o x y) as [[| |]|] eqn:E; try congruence.
        - apply (f_opp _ _ Ho) in E. cbn in E. congruence.
        - exfalso. apply (Hc x y); cbn; auto. }
      f_equal. apply Permutation_cons_inv in P.
      inversion Hs; subst. inversion Hs'; subst.
      apply IH; try assumption.
      + intros a b Ha Hb. apply Hc; cbn; auto.
      + intros a b Ha Hb. apply Hsep; cbn; auto.
  Qed.

  Theorem isort_perm_invariant l l' : Permutation l l' -> comparable l -> separated l ->
    isort l = isort l'.
  Proof.
    intros P Hc Hsep.
    apply sorted_perm_unique.
    - rewrite <- isort_perm, <- isort_perm. exact P.
    - eapply comparable_perm; [apply isort_perm|exact Hc].
    - eapply separated_perm; [apply isort_perm|exact Hsep].
    - now apply isort_sorted.
    - apply isort_sorted. eapply comparable_perm; eassumption.
  Qed.

  (* any sorted arrangement (e.g. the one CPython's sort returns) equals ours *)
  Theorem any_sorted_is_isort l s : Permutation l s -> StronglySorted le s ->
    comparable l -> separated l -> s = isort l.
  Proof.
    intros P Hs Hc Hsep. symmetry. apply sorted_perm_unique.
    - rewrite <- isort_perm. exact P.
    - eapply comparable_perm; [apply isort_perm|exact Hc].
    - eapply separated_perm; [apply isort_perm|exact Hsep].
    - now apply isort_sorted.
    - exact Hs.
  Qed.
End Sort.
