(** Calendar facts used by C13 (month unit) and C15, proved for the bounded range of month ids
    0..1571 (1970-01 .. 2100-12) by kernel computation and lifted to forall-statements. *)
From Coq Require Import ZArith List Bool Lia.
From Bermuda Require Import Lib.Calendar.
Import ListNotations.
Local Open Scope Z_scope.

Definition MAXID : Z := 1571.
Definition ids : list Z := map Z.of_nat (seq 0 1572).

Lemma in_ids a : 0 <= a <= MAXID -> In a ids.
Proof.
  intros H. unfold ids, MAXID in *. apply in_map_iff. exists (Z.to_nat a). split; [lia|].
  apply in_seq. lia.
Qed.

Lemma all_ids (f : Z -> bool) : forallb f ids = true -> forall a, 0 <= a <= MAXID -> f a = true.
Proof. intros H a Ha. rewrite forallb_forall in H. apply H, in_ids, Ha. Qed.

Definition id_facts (a : Z) : bool :=
  (month_id (month_end a) =? a) && (month_id (month_start a) =? a)
  && is_month_end (month_end a) && is_month_start (month_start a)
  && (month_start a <=? month_end a)
  && (month_end a + 1 =? month_start (a + 1))
  && (month_id (month_start a - 1) =? a - 1)
  && (month_end (a - 1) <? month_end a).

Lemma id_facts_all : forallb id_facts ids = true.
Proof. vm_compute. reflexivity. Qed.

Section Facts.
  Variable a : Z.
  Hypothesis Ha : 0 <= a <= MAXID.
  Let F := all_ids id_facts id_facts_all a Ha.

  Lemma month_id_end : month_id (month_end a) = a.
  Proof. pose proof F as H. unfold id_facts in H. rewrite !andb_true_iff in H. lia. Qed.
  Lemma month_id_start : month_id (month_start a) = a.
  Proof. pose proof F as H. unfold id_facts in H. rewrite !andb_true_iff in H. lia. Qed.
  Lemma month_end_is_end : is_month_end (month_end a) = true.
  Proof. pose proof F as H. unfold id_facts in H. rewrite !andb_true_iff in H. tauto. Qed.
  Lemma month_start_is_start : is_month_start (month_start a) = true.
  Proof. pose proof F as H. unfold id_facts in H. rewrite !andb_true_iff in H. tauto. Qed.
  Lemma month_start_le_end : month_start a <= month_end a.
  Proof. pose proof F as H. unfold id_facts in H. rewrite !andb_true_iff in H. lia. Qed.
  Lemma month_id_before_start : month_id (month_start a - 1) = a - 1.
  Proof. pose proof F as H. unfold id_facts in H. rewrite !andb_true_iff in H. lia. Qed.
  Lemma month_end_step : month_end (a - 1) < month_end a.
  Proof. pose proof F as H. unfold id_facts in H. rewrite !andb_true_iff in H. lia. Qed.
End Facts.

(* month ends are strictly increasing in the month id *)
Lemma month_end_mono a b : 0 <= a -> a < b -> b <= MAXID -> month_end a < month_end b.
Proof.
  intros H0 Hab Hb. remember (Z.to_nat (b - a - 1)) as n eqn:En.
  revert b Hab Hb En. induction n as [|n IH]; intros b Hab Hb En.
  - assert (a = b - 1) as -> by lia. apply month_end_step. unfold MAXID in *. lia.
  - assert (month_end a < month_end (b - 1)) by (apply IH; lia).
    assert (month_end (b - 1) < month_end b) by (apply month_end_step; unfold MAXID in *; lia). lia.
Qed.
Lemma month_end_mono_le a b : 0 <= a -> a <= b -> b <= MAXID -> month_end a <= month_end b.
Proof.
  intros H0 Hab Hb. destruct (Z.eq_dec a b) as [->|Hne]; [lia|].
  assert (month_end a < month_end b) by (apply month_end_mono; lia). lia.
Qed.
Lemma month_end_inj_lt a b : 0 <= a <= MAXID -> 0 <= b <= MAXID -> month_end a < month_end b -> a < b.
Proof.
  intros Ha Hb H. destruct (Z_lt_le_dec a b) as [?|Hge]; [assumption|].
  assert (month_end b <= month_end a) by (apply month_end_mono_le; lia). lia.
Qed.

(* integer lags and shifts between month ends (the Z-level counterparts of dev_lag_months /
   add_months, tied to the float code by C12) *)
Lemma lag_months_ends a b : 0 <= a <= MAXID -> 0 <= b <= MAXID ->
  lag_months (month_end a) (month_end b) = b - a.
Proof. intros Ha Hb. unfold lag_months. rewrite !month_id_end by assumption. reflexivity. Qed.

Lemma addm_end a k : 0 <= a <= MAXID -> addm (month_end a) k = month_end (a + k).
Proof.
  intros Ha. unfold addm. rewrite month_end_is_end, month_id_end by assumption. reflexivity.
Qed.

Lemma lag_addm_end a k : 0 <= a <= MAXID -> 0 <= a + k <= MAXID ->
  lag_months (month_end a) (addm (month_end a) k) = k.
Proof. intros Ha Hk. rewrite addm_end, lag_months_ends by assumption. lia. Qed.

(* period length in months of a month-aligned period, as is_semi_regular computes it *)
Lemma plen_month_aligned a b : 0 <= a <= MAXID -> 0 <= b <= MAXID ->
  lag_months (month_start a - 1) (month_end b) = b - a + 1.
Proof.
  intros Ha Hb. unfold lag_months. rewrite month_id_end, month_id_before_start by assumption. lia.
Qed.
