(** Calendar facts used by C13 (month unit) and C15, for EVERY date of Python's range (year >= 1):
    month ids a with MINID <= a (MINID = -23628 = month id of 0001-01).  They are instances of the
    unbounded, axiom-free facts of Proofs/CalendarP.v (Gregorian 400-year periodicity + kernel
    evaluation of one cycle).
    Tie to the source: Calendar.addm / lag_months equal bermuda's float-based add_months /
    dev_lag_months only where the C12 bridge theorems say so (month-aligned dates with results in
    1970-2100; before 1970 see known finding F10). *)
From Coq Require Import ZArith List Bool Lia.
From Bermuda Require Import Lib.Calendar Proofs.CalendarP.
Import ListNotations.
Local Open Scope Z_scope.

Lemma month_id_end a : MINID <= a -> month_id (month_end a) = a.
Proof. apply month_id_month_end. Qed.
Lemma month_id_start a : MINID <= a -> month_id (month_start a) = a.
Proof. apply month_id_month_start. Qed.
Lemma month_end_is_end a : MINID <= a -> is_month_end (month_end a) = true.
Proof. apply is_month_end_month_end. Qed.
Lemma month_start_is_start a : MINID <= a -> is_month_start (month_start a) = true.
Proof. apply is_month_start_month_start. Qed.
(* the day before a month start is the previous month's end (needs that month to exist: MINID < a) *)
Lemma month_id_before_start a : MINID < a -> month_id (month_start a - 1) = a - 1.
Proof.
  intros H. pose proof (month_end_succ (a - 1)) as E. replace (a - 1 + 1) with a in E by lia.
  replace (month_start a - 1) with (month_end (a - 1)) by lia. apply month_id_month_end. lia.
Qed.

(* month ends are strictly increasing in the month id (no bound needed) *)
Lemma month_end_mono a b : a < b -> month_end a < month_end b.
Proof.
  intros H. pose proof (month_end_succ a). pose proof (month_end_succ b).
  assert (month_start (a + 1) < month_start (b + 1)) by (apply month_start_strict_mono; lia). lia.
Qed.
Lemma month_end_mono_le a b : a <= b -> month_end a <= month_end b.
Proof.
  intros H. destruct (Z.eq_dec a b) as [->|Hne]; [lia|].
  assert (month_end a < month_end b) by (apply month_end_mono; lia). lia.
Qed.
Lemma month_end_inj_lt a b : month_end a < month_end b -> a < b.
Proof.
  intros H. destruct (Z_lt_le_dec a b) as [?|Hge]; [assumption|].
  assert (month_end b <= month_end a) by (apply month_end_mono_le; lia). lia.
Qed.

(* integer lags and shifts between month ends (the Z-level counterparts of dev_lag_months /
   add_months, tied to the float code by C12) *)
Lemma lag_months_ends a b : MINID <= a -> MINID <= b -> lag_months (month_end a) (month_end b) = b - a.
Proof. apply lag_months_month_ends. Qed.

Lemma addm_end a k : MINID <= a -> addm (month_end a) k = month_end (a + k).
Proof. apply addm_month_end. Qed.

Lemma lag_addm_end a k : MINID <= a -> MINID <= a + k ->
  lag_months (month_end a) (addm (month_end a) k) = k.
Proof. intros Ha Hk. rewrite addm_end, lag_months_ends by assumption. lia. Qed.

(* period length in months of a month-aligned period, as is_semi_regular computes it:
   dev_lag_months(start - 1 day, stop) *)
Lemma plen_month_aligned a b : MINID < a -> MINID <= b ->
  lag_months (month_start a - 1) (month_end b) = b - a + 1.
Proof.
  intros Ha Hb. unfold lag_months. rewrite month_id_end by assumption.
  rewrite month_id_before_start by assumption. lia.
Qed.
