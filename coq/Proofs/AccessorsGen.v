(** C13: generic theorems for the regenerated decision tokens.  For ANY description satisfying the
    Boolean side condition the generated definition coincides with the model's. *)
From Coq Require Import ZArith List Bool Lia.
From Bermuda Require Import Model.Base Model.Accessors Proofs.Accessors Proofs.AccessorsTax.
Import ListNotations.
Local Open Scope Z_scope.

Lemma cmp_ok_sound d : cmp_spec_ok d = true -> forall p n, eval_cmp d p n = overlap_adjacent p n.
Proof.
  destruct d as [l o r]. destruct l, o, r; simpl; try discriminate; intros _ p n;
    unfold eval_cmp, overlap_adjacent; simpl; lia.
Qed.

Lemma adj_ok_ext f g : (forall p n, f p n = g p n) -> forall ps, adj_ok f ps = adj_ok g ps.
Proof.
  intros H. induction ps as [|a r IH]; [reflexivity|]. destruct r as [|b r']; [reflexivity|].
  change (adj_ok f (a :: b :: r')) with (if f a b then false else adj_ok f (b :: r')).
  change (adj_ok g (a :: b :: r')) with (if g a b then false else adj_ok g (b :: r')).
  rewrite H, IH. reflexivity.
Qed.

Theorem is_disjoint_gen d t : cmp_spec_ok d = true -> is_disjoint_with (eval_cmp d) t = is_disjoint t.
Proof.
  intros H. unfold is_disjoint, is_disjoint_with. destruct t; [reflexivity|].
  apply adj_ok_ext, cmp_ok_sound, H.
Qed.

Lemma fold_gcd_swap r x y : fold_left Z.gcd r (Z.gcd y x) = fold_left Z.gcd r (Z.gcd x y).
Proof. now rewrite Z.gcd_comm. Qed.

Theorem multi_gcd_gen_ok d xs : red_spec_ok d = true -> multi_gcd_gen d xs = multi_gcd xs.
Proof.
  destruct d as [o s a b f]. destruct o; try discriminate.
  destruct s; try discriminate. destruct a as [|[|a]]; try discriminate.
  - destruct b as [|[|b]]; try discriminate. destruct f as [|[|[|f]]]; try discriminate.
    intros _. unfold multi_gcd_gen, multi_gcd. destruct (sort_u Z.ltb xs) as [|x [|y r]]; reflexivity.
  - destruct b; try discriminate. destruct f as [|[|[|f]]]; try discriminate.
    intros _. unfold multi_gcd_gen, multi_gcd. destruct (sort_u Z.ltb xs) as [|x [|y r]]; try reflexivity.
    simpl. now rewrite Z.gcd_comm.
Qed.

Theorem diffs_gen_ok d xs : diff_spec_ok d = true -> diffs_gen d xs = diffs xs.
Proof.
  destruct d as [o l]. destruct o, l; try discriminate. intros _.
  induction xs as [|a r IH]; [reflexivity|]. destruct r as [|b r']; [reflexivity|].
  change (diffs_gen (mkDiff BSub After) (a :: b :: r')) with
    (eval_diff (mkDiff BSub After) a b :: diffs_gen (mkDiff BSub After) (b :: r')).
  rewrite IH. reflexivity.
Qed.
