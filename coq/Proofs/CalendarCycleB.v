(** Kernel evaluation over every (y, m, d), 1 <= y <= 400, 1 <= m <= 12, 1 <= d <= days_in_month. *)
From Coq Require Import ZArith Bool.
From Bermuda Require Import Lib.Calendar Proofs.CalendarCycle.
Lemma cycleB : range_all 9 1 okB = true.
Proof. vm_cast_no_check (eq_refl true). Qed.
