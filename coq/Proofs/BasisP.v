(** C04: final lemmas, for every description d with spec_ok d = true (i.e. d = std_desc).
    Props/C04.v only restates them. *)
From Coq Require Import ZArith List Bool Lia.
From Bermuda Require Import Model.Base Model.Basis Proofs.BasisEq Proofs.BasisVal Proofs.BasisRow
     Proofs.BasisTri.
Import ListNotations.
Local Open Scope Z_scope.

Ltac std d H := rewrite (spec_ok_std d H) in *; clear H.

(* ------------------------------------------------------------------ 1. structure *)
Lemma P_row_inc_struct d row :
  spec_ok d = true -> cum_row_okb d false row = true ->
  exists incs, row_to_incremental d row = Ok incs /\ inc_row_structb row incs = true.
Proof. intros H; std d H. apply row_inc_struct. Qed.

Lemma P_tri_inc_struct d rows :
  spec_ok d = true -> rows_okb rows = true -> forallb (cum_row_okb d false) rows = true ->
  exists outs, to_incremental d (concat rows) = Ok (concat outs) /\ rows_structb rows outs = true.
Proof.
  intros H; std d H. intros A B. destruct (tri_inc_struct rows A B) as [o [E [S _]]]. eauto.
Qed.

(* reading of the Boolean structure predicate, cell by cell *)
Definition inc_value_spec (first : bool) (pvals nvals : list (str * value)) (k : str) (v : value) : Prop :=
  exists nv, assoc k nvals = Some nv /\
    if first || str_eqb k EP then v = nv
    else exists a, assoc k pvals = Some a /\ val_sub nv a = Ok v.

Lemma inc_value_okb_spec pv nvals kv :
  inc_value_okb pv nvals kv = true ->
  inc_value_spec (match pv with None => true | Some _ => false end)
                 (match pv with None => [] | Some p => p end) nvals (fst kv) (snd kv).
Proof.
  unfold inc_value_okb, inc_value_spec. destruct (assoc (fst kv) nvals) as [nv|]; [|discriminate].
  intros H. exists nv; split; auto. destruct pv as [p|]; cbn [orb].
  - destruct (str_eqb (fst kv) EP); [now apply value_seqb_eq|].
    destruct (assoc (fst kv) p) as [a|]; [|discriminate]. exists a; split; auto.
    destruct (val_sub nv a); [|discriminate]. f_equal. symmetry. now apply value_seqb_eq.
  - now apply value_seqb_eq.
Qed.

Definition inc_cell_spec (pdate : date) (first : bool) (pvals : list (str * value)) (c o : cell) : Prop :=
  ckind o = KInc /\ ps o = ps c /\ pe o = pe c /\ ev o = ev c /\ cmeta o = cmeta c
  /\ prev o = Some pdate /\ keys (cvals o) = keys (cvals c)
  /\ forall k v, In (k, v) (cvals o) -> inc_value_spec first pvals (cvals c) k v.

Lemma inc_cell_okb_spec pdate pv c o :
  inc_cell_okb pdate pv c o = true ->
  inc_cell_spec pdate (match pv with None => true | Some _ => false end)
                (match pv with None => [] | Some p => p end) c o.
Proof.
  unfold inc_cell_okb, inc_cell_spec.
  rewrite !andb_true_iff, !Z.eqb_eq, meta_seqb_eq, (opt_eqb_eq Z.eqb Z.eqb_eq),
    (list_eqb_eq str_eqb str_eqb_eq), forallb_forall.
  intros [[[[[[[K A] B] C] D] E] F] G]. repeat split; auto.
  - destruct (ckind o); try discriminate; reflexivity.
  - intros k v Hin. apply (inc_value_okb_spec pv (cvals c) (k, v)). now apply G.
Qed.

(* the i-th increment of a row: prev = preceding evaluation date (period_start - 1 for i = 0),
   values = differences to the (i-1)-th cumulative cell except earned_premium *)
Lemma inc_tail_structb_nth : forall rest p out,
  inc_tail_structb p rest out = true ->
  length out = length rest /\
  forall i c o, nth_error rest i = Some c -> nth_error out i = Some o ->
    let pc := match i with O => p | S j => nth j rest p end in
    inc_cell_spec (ev pc) false (cvals pc) c o.
Proof.
  induction rest as [|n r IH]; intros p out H; destruct out as [|o os]; try discriminate.
  - split; auto. intros [|i]; discriminate.
  - cbn [inc_tail_structb] in H. apply andb_true_iff in H as [H1 H2].
    destruct (IH n os H2) as [L N]. split; [cbn [length]; now rewrite L|].
    intros [|i] c o' Hc Ho; cbn [nth_error] in Hc, Ho.
    + inversion Hc; inversion Ho; subst. apply (inc_cell_okb_spec _ (Some (cvals p)) _ _ H1).
    + specialize (N i c o' Hc Ho). cbn zeta in *. destruct i as [|j]; [exact N|].
      cbn [nth]. rewrite (nth_indep r p n); [exact N|].
      assert (S j < length r)%nat by (apply nth_error_Some; congruence). lia.
Qed.

Lemma P_row_structb_nth row out :
  inc_row_structb row out = true ->
  length out = length row /\
  forall i c o, nth_error row i = Some c -> nth_error out i = Some o ->
    match i with
    | O => inc_cell_spec (ps c - 1) true [] c o
    | S j => forall pc, nth_error row j = Some pc -> inc_cell_spec (ev pc) false (cvals pc) c o
    end.
Proof.
  destruct row as [|c0 rest], out as [|o0 os]; try discriminate.
  - intros _. split; auto. intros [|i]; discriminate.
  - cbn [inc_row_structb]. rewrite andb_true_iff. intros [H1 H2].
    destruct (inc_tail_structb_nth rest c0 os H2) as [L N]. split; [cbn [length]; now rewrite L|].
    intros [|i] c o Hc Ho; cbn [nth_error] in Hc, Ho.
    + inversion Hc; inversion Ho; subst. apply (inc_cell_okb_spec _ None _ _ H1).
    + intros pc Hpc. specialize (N i c o Hc Ho). cbn zeta in N.
      destruct i as [|j]; cbn [nth_error] in Hpc.
      * inversion Hpc; subst. exact N.
      * rewrite (nth_error_nth rest j c0 Hpc) in N. exact N.
Qed.

(* ------------------------------------------------------------------ 2./3. round trips *)
Lemma P_row_inc_cum d row :
  spec_ok d = true -> cum_row_okb d true row = true ->
  exists incs, row_to_incremental d row = Ok incs
               /\ row_to_cumulative d incs = Ok (map retag_cum row).
Proof. intros H; std d H. apply row_inc_cum. Qed.
Lemma P_tri_inc_cum d rows :
  spec_ok d = true -> rows_okb rows = true -> forallb (cum_row_okb d true) rows = true ->
  exists incs, to_incremental d (concat rows) = Ok incs
               /\ to_cumulative d incs = Ok (map retag_cum (concat rows)).
Proof. intros H; std d H. apply tri_inc_cum. Qed.
Lemma P_row_cum_inc d row :
  spec_ok d = true -> inc_row_okb d row = true ->
  exists cums, row_to_cumulative d row = Ok cums /\ row_to_incremental d cums = Ok row.
Proof. intros H; std d H. apply row_cum_inc. Qed.
Lemma P_tri_cum_inc d rows :
  spec_ok d = true -> rows_okb rows = true -> forallb (inc_row_okb d) rows = true ->
  exists cums, to_cumulative d (concat rows) = Ok cums
               /\ to_incremental d cums = Ok (concat rows).
Proof. intros H; std d H. apply tri_cum_inc. Qed.

(* ------------------------------------------------------------------ 4. identity on the target basis *)
Lemma P_identity_inc d t : is_incremental t = true -> to_incremental d t = Ok t.
Proof. intros H. unfold to_incremental. now rewrite H. Qed.
Lemma P_identity_cum d t : is_incremental t = false -> to_cumulative d t = Ok t.
Proof. intros H. unfold to_cumulative. now rewrite H. Qed.

(* ------------------------------------------------------------------ 5. refusals *)
Lemma P_first_prev_refused d c0 rest p0 :
  spec_ok d = true -> prev c0 = Some p0 -> p0 + 1 <> ps c0 ->
  row_to_cumulative d (c0 :: rest) = Err TriangleError.
Proof. intros H; std d H. apply first_prev_refused. Qed.

Lemma row_cum_refused pre a b post outs pb :
  row_to_cumulative SD (pre ++ [a]) = Ok outs -> prev b = Some pb ->
  pb <> ev a \/ keyset_eqb (cvals a) (cvals b) = false ->
  row_to_cumulative SD (pre ++ a :: b :: post) = Err TriangleError.
Proof.
  destruct pre as [|c0 l]; cbn [app row_to_cumulative]; intros H PB BR.
  - destruct (prev a); [|discriminate]. destruct (negb _); [discriminate|].
    destruct (mk_cum _ _ _ _ _); [|discriminate]. cbn [bind] in *.
    cbn [cum_tail]. rewrite PB. destruct (pb =? ev a) eqn:Q; cbn [negb]; [|reflexivity].
    apply Z.eqb_eq in Q. destruct BR as [BR|BR]; [contradiction|].
    unfold values_add at 1. rewrite values_combine_keys_differ by auto. reflexivity.
  - destruct (prev c0); [|discriminate]. destruct (negb _); [discriminate|].
    destruct (mk_cum _ _ _ _ _); [|discriminate]. cbn [bind] in *.
    destruct (cum_tail SD (ps c0) (pe c0) (cmeta c0) (ev c0) (cvals c0) (l ++ [a])) eqn:E;
      [|discriminate].
    rewrite (cum_tail_refused _ _ _ _ _ post _ PB _ _ _ _ E BR). reflexivity.
Qed.

Lemma P_broken_link_refused d pre a b post outs pb :
  spec_ok d = true -> row_to_cumulative d (pre ++ [a]) = Ok outs -> prev b = Some pb ->
  pb <> ev a -> row_to_cumulative d (pre ++ a :: b :: post) = Err TriangleError.
Proof. intros H; std d H. intros. eapply row_cum_refused; eauto. Qed.

Lemma P_fields_refused_cum d pre a b post outs pb :
  spec_ok d = true -> row_to_cumulative d (pre ++ [a]) = Ok outs -> prev b = Some pb ->
  keyset_eqb (cvals a) (cvals b) = false ->
  row_to_cumulative d (pre ++ a :: b :: post) = Err TriangleError.
Proof. intros H; std d H. intros. eapply row_cum_refused; eauto. Qed.

Lemma P_fields_refused_inc d pre a b post outs :
  spec_ok d = true -> row_to_incremental d (pre ++ [a]) = Ok outs ->
  keyset_eqb (cvals a) (cvals b) = false ->
  row_to_incremental d (pre ++ a :: b :: post) = Err TriangleError.
Proof. intros H; std d H. apply row_inc_keys_refused. Qed.

(* complete rows with one link removed / shifted *)
Lemma last_nonempty {A} (x : A) l p q : last (x :: l) p = last (x :: l) q.
Proof.
  revert x; induction l as [|y l IH]; intros x; [reflexivity|].
  change (last (x :: y :: l) p) with (last (y :: l) p).
  change (last (x :: y :: l) q) with (last (y :: l) q). apply IH.
Qed.
Lemma last_cons {A} (n : A) l p : last (n :: l) p = last l n.
Proof. destruct l as [|x l]; [reflexivity|]. change (last (n :: x :: l) p) with (last (x :: l) p).
  apply last_nonempty. Qed.

Lemma inc_tail_okb_app d c0 : forall l1 p l2,
  inc_tail_okb d c0 p (l1 ++ l2) = true ->
  inc_tail_okb d c0 p l1 = true /\ inc_tail_okb d c0 (last l1 p) l2 = true.
Proof.
  induction l1 as [|n l1 IH]; intros p l2 H; [split; auto|].
  cbn [app] in H. pose proof H as H'. apply inc_tail_okb_cons in H' as [A [B [C [D [E [F G]]]]]].
  destruct (IH n l2 G) as [I1 I2]. rewrite last_cons. split; auto.
  cbn [inc_tail_okb] in *. rewrite I1. rewrite !andb_true_iff in H. rewrite !andb_true_iff. tauto.
Qed.

Lemma inc_row_okb_split d pre a tl :
  inc_row_okb d (pre ++ a :: tl) = true ->
  inc_row_okb d (pre ++ [a]) = true /\ exists c0, inc_tail_okb d c0 a tl = true.
Proof.
  destruct pre as [|c0 l]; cbn [app inc_row_okb]; rewrite !andb_true_iff.
  - intros [H T]. split; [tauto | eauto].
  - intros [H T]. replace (l ++ a :: tl) with ((l ++ [a]) ++ tl) in T by now rewrite <- app_assoc.
    apply inc_tail_okb_app in T as [T1 T2]. rewrite last_last in T2. split; [tauto | eauto].
Qed.

Lemma P_removed_link_refused d pre a x b post :
  spec_ok d = true -> inc_row_okb d (pre ++ a :: x :: b :: post) = true ->
  row_to_cumulative d (pre ++ a :: b :: post) = Err TriangleError.
Proof.
  intros H; std d H. intros H. apply inc_row_okb_split in H as [H1 [c0 H2]].
  destruct (row_cum_inc _ H1) as [cums [E _]].
  apply inc_tail_okb_cons in H2 as [_ [_ [_ [_ [L [_ H2]]]]]].
  apply inc_tail_okb_cons in H2 as [_ [_ [_ [P _]]]].
  eapply row_cum_refused; eauto. left. lia.
Qed.

Lemma P_removed_first_refused d c0 x post :
  spec_ok d = true -> inc_row_okb d (c0 :: x :: post) = true ->
  row_to_cumulative d (x :: post) = Err TriangleError.
Proof.
  intros H; std d H. cbn [inc_row_okb]. rewrite !andb_true_iff. intros [[[[_ D0] _] _] T].
  apply inc_tail_okb_cons in T as [_ [K [_ [P _]]]].
  apply ckey_parts in K as [Ks _]. apply cell_dates_ps_le_ev in D0.
  eapply first_prev_refused; eauto. lia.
Qed.

Lemma P_shifted_link_refused d pre a b post p' :
  spec_ok d = true -> inc_row_okb d (pre ++ a :: b :: post) = true -> p' <> ev a ->
  row_to_cumulative d (pre ++ a :: retag_inc p' b :: post) = Err TriangleError.
Proof.
  intros H; std d H. intros H NE. apply inc_row_okb_split in H as [H1 _].
  destruct (row_cum_inc _ H1) as [cums [E _]].
  eapply row_cum_refused; eauto. reflexivity.
Qed.

(* a refused row refuses the triangle (rows before it convert): never a partial result *)
Lemma P_tri_cum_refused d rows1 row rows2 outs e :
  rows_okb (rows1 ++ row :: rows2) = true -> forallb row_ascb (rows1 ++ row :: rows2) = true ->
  is_incremental (concat (rows1 ++ row :: rows2)) = true ->
  mapM (row_to_cumulative d) rows1 = Ok outs -> row_to_cumulative d row = Err e ->
  to_cumulative d (concat (rows1 ++ row :: rows2)) = Err e.
Proof.
  intros HR HA HI H1 H2. rewrite to_cumulative_rows by auto.
  now rewrite (mapM_err _ _ _ _ _ _ H1 H2).
Qed.
Lemma P_tri_inc_refused d rows1 row rows2 outs e :
  rows_okb (rows1 ++ row :: rows2) = true -> forallb row_ascb (rows1 ++ row :: rows2) = true ->
  is_incremental (concat (rows1 ++ row :: rows2)) = false ->
  mapM (row_to_incremental d) rows1 = Ok outs -> row_to_incremental d row = Err e ->
  to_incremental d (concat (rows1 ++ row :: rows2)) = Err e.
Proof.
  intros HR HA HI H1 H2. rewrite to_incremental_rows by auto.
  now rewrite (mapM_err _ _ _ _ _ _ H1 H2).
Qed.
