(** C04 helper lemmas 5: the executable specification that the harness evaluates on the
    IMPLEMENTATION's outputs (Basis.spec_cum) is met by the model -- i.e. it demands nothing beyond
    what the theorems prove. *)
From Coq Require Import ZArith List Bool Lia.
From Bermuda Require Import Model.Base Model.Basis Proofs.BasisEq Proofs.BasisVal Proofs.BasisRow
     Proofs.BasisTri.
Import ListNotations.
Local Open Scope Z_scope.

Lemma cells_eqb_refl l : cells_eqb l l = true.
Proof. now apply cells_eqb_eq. Qed.
Lemma res_eqb_refl r : res_eqb r r = true.
Proof. destruct r as [l|e]; cbn; [apply cells_eqb_refl | destruct e; reflexivity]. Qed.

(* ---- refusal part: first defective row has a key-set defect -> TriangleError ---- *)
Lemma keys_broken_tail c0 : forall rest p,
  NoDup (keys (cvals p)) -> cum_keys_brokenb c0 p rest = true ->
  inc_tail SD (ps c0) (pe c0) (cmeta c0) (ev p) (cvals p) rest = Err TriangleError.
Proof.
  induction rest as [|n r IH]; intros p ND H; [discriminate|].
  cbn [cum_keys_brokenb] in H. cbn [inc_tail].
  destruct (keyset_eqb (cvals p) (cvals n)) eqn:KS; cbn [negb] in H.
  - destruct (cum_tail_okb SD false c0 p [n]) eqn:OK; [|discriminate].
    apply cum_tail_okb_cons in OK as [_ [K [Dn [L [C _]]]]]. cbn [carry_d SD] in C.
    pose proof (vals_compatb_keys _ _ _ _ C) as KK.
    assert (NDn : NoDup (keys (cvals n))) by (rewrite <- KK; exact ND).
    destruct (ckey_parts _ _ K) as [Ks [Ke Km]].
    destruct (zip_sub_defined _ _ _ C) as [dv [E1 E2]].
    rewrite values_diff_zip, E1 by auto. cbn [bind].
    rewrite mk_inc_ok by (rewrite ?Ks, ?Ke; auto). cbn [bind].
    rewrite (IH n NDn H). reflexivity.
  - unfold values_diff. rewrite values_combine_keys_differ by auto. reflexivity.
Qed.

Lemma first_bad_cum_refused : forall rows,
  first_bad_cum_is_keys rows = true ->
  mapM (row_to_incremental SD) rows = Err TriangleError.
Proof.
  induction rows as [|r rs IH]; intros H; [discriminate|]. cbn [first_bad_cum_is_keys] in H.
  cbn [mapM]. destruct (cum_row_okb SD false r) eqn:OK.
  - destruct (row_inc_struct r OK) as [o [E _]]. rewrite E. cbn [bind]. now rewrite (IH H).
  - destruct r as [|c0 rest]; [discriminate|].
    rewrite !andb_true_iff, negb_true_iff in H. destruct H as [[[_ D0] N0] B].
    apply nodupb_NoDup in N0.
    cbn [row_to_incremental off_first SD].
    rewrite mk_inc_ok by (auto; apply cell_dates_ps_le_ev in D0; lia). cbn [bind].
    rewrite (keys_broken_tail c0 rest c0 N0 B). reflexivity.
Qed.

(* ---- the model meets spec_cum ---- *)
Lemma model_meets_spec_cum t :
  spec_cum t (to_incremental SD t) (bind (to_incremental SD t) (to_cumulative SD)) = true.
Proof.
  unfold spec_cum. rewrite !andb_true_iff. repeat split.
  - (* structure *)
    destruct (cum_hyp false t) eqn:H; [|reflexivity]. cbn [implb].
    unfold cum_hyp in H. rewrite !andb_true_iff in H. destruct H as [[[NI RO] OK] EQ].
    apply cells_eqb_eq in EQ.
    destruct (tri_inc_struct_heads _ RO OK) as [outs [E [S [SIM HI]]]].
    rewrite EQ in E. rewrite E.
    assert (RO' : rows_okb outs = true) by now rewrite (rows_okb_ext _ _ SIM).
    assert (AS' : forallb row_ascb outs = true).
    { rewrite (rows_ascb_ext _ _ SIM). eapply rows_asc_of; [|exact OK]. apply cum_row_okb_asc. }
    rewrite (rows_of_concat outs RO' AS'), S, cells_eqb_refl, !andb_true_r.
    destruct t as [|c t']; [reflexivity|].
    destruct outs as [|o os].
    + inversion SIM as [HR|]. rewrite <- HR in EQ. discriminate.
    + apply is_incremental_concat_true. now inversion HI.
  - (* exact round trip *)
    destruct (cum_hyp true t) eqn:H; [|reflexivity]. cbn [implb].
    unfold cum_hyp in H. rewrite !andb_true_iff in H. destruct H as [[[NI RO] OK] EQ].
    apply cells_eqb_eq in EQ.
    destruct (tri_inc_cum _ RO OK) as [incs [E1 E2]]. rewrite EQ in E1, E2.
    rewrite E1. cbn [bind]. rewrite E2. apply res_eqb_refl.
  - (* refusal *)
    destruct (negb (is_incremental t)) eqn:NI; [|reflexivity]. cbn [andb].
    destruct (first_bad_cum_is_keys (rows_of t)) eqn:H; [|reflexivity]. cbn [implb].
    apply negb_true_iff in NI. unfold to_incremental. rewrite NI.
    rewrite (first_bad_cum_refused _ H). reflexivity.
Qed.

(* ---- incremental side ---- *)
Lemma chain_broken_tail c0 : forall rest p cur,
  map kshape cur = map kshape (cvals p) -> NoDup (keys cur) ->
  chain_brokenb c0 p rest = true ->
  cum_tail SD (ps c0) (pe c0) (cmeta c0) (ev p) cur rest = Err TriangleError.
Proof.
  induction rest as [|n r IH]; intros p cur SH ND H; [discriminate|].
  cbn [chain_brokenb] in H. cbn [cum_tail].
  destruct (prev n) as [pn|] eqn:P; [|discriminate].
  destruct (pn =? ev p) eqn:Q; cbn [negb] in *; [|reflexivity].
  apply Z.eqb_eq in Q. subst pn.
  pose proof (keys_kshape _ _ SH) as KC.
  destruct (keyset_eqb (cvals p) (cvals n)) eqn:KS; cbn [negb] in H.
  - destruct (inc_tail_okb SD c0 p [n]) eqn:OK; [|discriminate].
    apply inc_tail_okb_cons in OK as [In' [K [Dn [_ [L [C _]]]]]]. cbn [carry_a SD] in C.
    rewrite <- (vals_compatb_shape _ _ _ _ _ SH) in C.
    pose proof (vals_compatb_keys _ _ _ _ C) as KK.
    assert (NDn : NoDup (keys (cvals n))) by (rewrite <- KK; exact ND).
    destruct (ckey_parts _ _ K) as [Ks [Ke Km]].
    destruct (zip_add_sub _ _ _ C) as [s [E1 [E2 [E3 E4]]]].
    assert (NDs : NoDup (keys s)) by (rewrite E4; exact ND).
    rewrite values_add_zip, E1 by auto. cbn [bind].
    rewrite mk_cum_ok by (rewrite ?Ks, ?Ke; auto). cbn [bind].
    rewrite (IH n s E3 NDs H). reflexivity.
  - unfold values_add. rewrite values_combine_keys_differ; [reflexivity|].
    now rewrite (keyset_eqb_keys _ _ _ KC).
Qed.

Lemma first_bad_inc_refused : forall rows,
  first_bad_is_broken rows = true ->
  mapM (row_to_cumulative SD) rows = Err TriangleError.
Proof.
  induction rows as [|r rs IH]; intros H; [discriminate|]. cbn [first_bad_is_broken] in H.
  cbn [mapM]. destruct (inc_row_okb SD r) eqn:OK.
  - destruct (row_cum_inc r OK) as [o [E _]]. rewrite E. cbn [bind]. now rewrite (IH H).
  - destruct r as [|c0 rest]; [discriminate|]. cbn [row_brokenb] in H.
    destruct (prev c0) as [p0|] eqn:P0; [|discriminate].
    destruct (p0 + 1 =? ps c0) eqn:Q; cbn [negb] in H.
    + rewrite !andb_true_iff in H. destruct H as [[[_ D0] N0] B]. apply nodupb_NoDup in N0.
      cbn [row_to_cumulative off_check SD]. rewrite P0, Q. cbn [negb].
      rewrite mk_cum_ok by auto. cbn [bind].
      rewrite (chain_broken_tail c0 rest c0 (cvals c0) eq_refl N0 B). reflexivity.
    + apply Z.eqb_neq in Q. rewrite (first_prev_refused c0 rest p0 P0 Q). reflexivity.
Qed.

(* a complete incremental row: the cumulative row it produces has the original cells as its increments *)
Lemma cum_inc_tail_struct c0 : forall rest p cur pc,
  inc_tail_okb SD c0 p rest = true ->
  map kshape cur = map kshape (cvals p) -> NoDup (keys cur) ->
  ev pc = ev p -> cvals pc = cur ->
  exists cums, cum_tail SD (ps c0) (pe c0) (cmeta c0) (ev p) cur rest = Ok cums
               /\ inc_tail_structb pc cums rest = true.
Proof.
  induction rest as [|n r IH]; intros p cur pc H SH ND EP' EC.
  - exists []; split; reflexivity.
  - apply inc_tail_okb_cons in H as [In' [K [Dn [P [L [C T]]]]]].
    cbn [carry_a SD] in C.
    rewrite <- (vals_compatb_shape _ _ _ _ _ SH) in C.
    pose proof (vals_compatb_keys _ _ _ _ C) as KK.
    assert (NDn : NoDup (keys (cvals n))) by (rewrite <- KK; exact ND).
    destruct (ckey_parts _ _ K) as [Ks [Ke Km]].
    destruct (zip_add_sub _ _ _ C) as [s [E1 [E2 [E3 E4]]]].
    assert (NDs : NoDup (keys s)) by (rewrite E4; exact ND).
    assert (Dn' : cell_dates_ok (ps c0) (pe c0) (ev n) = true) by (rewrite Ks, Ke; auto).
    set (cn := mkCell KCum (ps c0) (pe c0) (ev n) None (cmeta c0) s).
    destruct (IH n s cn T E3 NDs eq_refl eq_refl) as [cums [I1 I2]].
    cbn [cum_tail]. rewrite P, Z.eqb_refl. cbn [negb].
    rewrite values_add_zip, E1 by auto. cbn [bind].
    rewrite mk_cum_ok by auto. cbn [bind]. rewrite I1. cbn [bind].
    eexists; split; [reflexivity|].
    cbn [inc_tail_structb]. fold cn. rewrite I2, andb_true_r.
    unfold inc_cell_okb. subst cn. cbn [ckind ps pe ev prev cmeta cvals].
    unfold is_inc in In'. destruct (ckind n); try discriminate. cbn [kind_eqb].
    rewrite Ks, Ke, Km, !Z.eqb_refl, (proj2 (meta_seqb_eq _ _) eq_refl).
    rewrite P, EP'. cbn [opt_eqb]. rewrite Z.eqb_refl.
    rewrite E4, KK, keys_eqb_refl. cbn [andb]. rewrite EC.
    apply (zip_sub_values_ok cur s cur s);
      [now rewrite E4 | intros; now apply assoc_In_nodup | intros; now apply assoc_In_nodup | exact E2].
Qed.

Lemma row_cum_struct row :
  inc_row_okb SD row = true ->
  exists cums, row_to_cumulative SD row = Ok cums /\ inc_row_structb cums row = true
               /\ Forall (fun c => ckind c = KCum) cums.
Proof.
  destruct row as [|c0 rest]; [discriminate|]. cbn [inc_row_okb].
  rewrite !andb_true_iff, (opt_eqb_eq Z.eqb Z.eqb_eq). intros [[[[I0 D0] N0] P0] T].
  apply nodupb_NoDup in N0.
  set (c0' := mkCell KCum (ps c0) (pe c0) (ev c0) None (cmeta c0) (cvals c0)).
  destruct (cum_inc_tail_struct c0 rest c0 (cvals c0) c0' T eq_refl N0 eq_refl eq_refl)
    as [cums [I1 I2]].
  cbn [row_to_cumulative off_check SD]. rewrite P0.
  replace (ps c0 - 1 + 1 =? ps c0) with true by (symmetry; apply Z.eqb_eq; lia). cbn [negb].
  rewrite mk_cum_ok by auto. cbn [bind]. rewrite I1. cbn [bind].
  eexists; split; [reflexivity|]. split.
  - cbn [inc_row_structb]. fold c0'. rewrite I2, andb_true_r.
    unfold inc_cell_okb. subst c0'. cbn [ckind ps pe ev prev cmeta cvals].
    unfold is_inc in I0. destruct (ckind c0); try discriminate. cbn [kind_eqb].
    rewrite !Z.eqb_refl, (proj2 (meta_seqb_eq _ _) eq_refl), P0. cbn [opt_eqb].
    rewrite Z.eqb_refl, keys_eqb_refl. cbn [andb].
    apply copy_values_ok. intros; now apply assoc_In_nodup.
  - constructor; [reflexivity|]. eapply row_cum_kinds_tail; eauto.
Qed.

Lemma Forall2_flip' {A B} (R : A -> B -> Prop) l l' :
  Forall2 R l l' -> Forall2 (fun b a => R a b) l' l.
Proof. induction 1; constructor; auto. Qed.

Lemma forallb_concat {A} (f : A -> bool) ls :
  Forall (fun l => Forall (fun a => f a = true) l) ls -> forallb f (concat ls) = true.
Proof.
  induction 1 as [|l ls H _ IH]; [reflexivity|]. cbn [concat]. rewrite forallb_app, IH, andb_true_r.
  apply forallb_forall. now apply Forall_forall.
Qed.

Lemma model_meets_spec_inc x :
  spec_inc x (to_cumulative SD x) (bind (to_cumulative SD x) (to_incremental SD)) = true.
Proof.
  unfold spec_inc. rewrite andb_true_iff. split.
  - destruct (inc_hyp x) eqn:H; [|reflexivity]. cbn [implb].
    unfold inc_hyp in H. rewrite !andb_true_iff in H. destruct H as [[[NI RO] OK] EQ].
    apply cells_eqb_eq in EQ. set (rows := rows_of x) in *.
    pose proof (rows_asc_of _ _ (inc_row_okb_asc SD) OK) as HA.
    destruct (tri_cum_inc _ RO OK) as [c [E1 E2]]. rewrite EQ in E1, E2.
    rewrite E1. cbn [bind]. rewrite E2, res_eqb_refl, andb_true_r.
    (* the same result, row by row *)
    assert (IX : is_incremental (concat rows) = true) by now rewrite EQ.
    rewrite <- EQ in E1. rewrite to_cumulative_rows in E1 by auto.
    destruct (mapM_Forall (row_to_cumulative SD)
                (fun r o => (inc_row_structb o r = true /\ Forall (fun y => ckind y = KCum) o)
                            /\ (row_sim r o /\ head_inc false o)) rows) as [outs [E F]].
    { pose proof (rows_okb_row_key _ RO) as HK. apply forallb_Forall in OK.
      rewrite Forall_forall in *. intros r Hr.
      destruct (row_cum_struct r (OK r Hr)) as [o [Eo [S Kc]]]. exists o.
      destruct (row_cum_shape SD r o (HK r Hr) Eo) as [S1 S2].
      repeat split; auto; try apply S1. eapply head_inc_of; eauto. }
    rewrite E in E1. cbn [bind] in E1. injection E1 as <-.
    apply Forall2_and in F as [F1 F2]. apply Forall2_and in F1 as [F1 F1'].
    apply Forall2_and in F2 as [F2 F3].
    assert (RO' : rows_okb outs = true) by now rewrite (rows_okb_ext _ _ F2).
    assert (AS' : forallb row_ascb outs = true) by now rewrite (rows_ascb_ext _ _ F2).
    rewrite (rows_of_concat outs RO' AS'), cells_eqb_refl, andb_true_r.
    rewrite (is_incremental_concat_false outs (Forall2_right _ _ _ F3)). cbn [negb andb].
    rewrite (rows_structb_Forall2 _ _ (Forall2_flip' _ _ _ F1)), andb_true_r.
    apply forallb_concat. apply (Forall2_right _ _ _) in F1'.
    eapply Forall_impl; [|exact F1']. intros l Hl. eapply Forall_impl; [|exact Hl].
    intros y Hy. now rewrite Hy.
  - destruct (is_incremental x) eqn:NI; [|reflexivity]. cbn [andb].
    destruct (first_bad_is_broken (rows_of x)) eqn:H; [|reflexivity]. cbn [implb].
    unfold to_cumulative. rewrite NI. cbn [negb].
    rewrite (first_bad_inc_refused _ H). reflexivity.
Qed.
