(** C04 helper lemmas 5: the executable specification that the harness evaluates on the
    IMPLEMENTATION's outputs (Basis.spec_cum) is met by the model -- i.e. it demands nothing beyond
    what the theorems prove. *)
From Coq Require Import ZArith List Bool Lia.
From Bermuda Require Import Model.Base Model.Basis Proofs.BasisEq Proofs.BasisVal Proofs.BasisRow
     Proofs.BasisTri.
Import ListNotations.
Local Open Scope Z_scope.

Lemma cells_eqb_refl l : cells_eqb l l = true.
Proof. now apply cells_eqb_eq. Qed.
Lemma res_eqb_refl r : res_eqb r r = true.
Proof. destruct r as [l|e]; cbn; [apply cells_eqb_refl | destruct e; reflexivity]. Qed.

(* ---- refusal part: first defective row has a key-set defect -> TriangleError ---- *)
Lemma keys_broken_tail c0 : forall rest p,
  NoDup (keys (cvals p)) -> cum_keys_brokenb c0 p rest = true ->
  inc_tail SD (ps c0) (pe c0) (cmeta c0) (ev p) (cvals p) rest = Err TriangleError.
Proof.
  induction rest as [|n r IH]; intros p ND H; [discriminate|].
  cbn [cum_keys_brokenb] in H. cbn [inc_tail].
  destruct (keyset_eqb (cvals p) (cvals n)) eqn:KS; cbn [negb] in H.
  - destruct (cum_tail_okb SD false c0 p [n]) eqn:OK; [|discriminate].
    apply cum_tail_okb_cons in OK as [_ [K [Dn [L [C _]]]]]. cbn [carry_d SD] in C.
    pose proof (vals_compatb_keys _ _ _ _ C) as KK.
    assert (NDn : NoDup (keys (cvals n))) by (rewrite <- KK; exact ND).
    destruct (ckey_parts _ _ K) as [Ks [Ke Km]].
    destruct (zip_sub_defined _ _ _ C) as [dv [E1 E2]].
    rewrite values_diff_zip, E1 by auto. cbn [bind].
    rewrite mk_inc_ok by (rewrite ?Ks, ?Ke; auto). cbn [bind].
    rewrite (IH n NDn H). reflexivity.
  - unfold values_diff. rewrite values_combine_keys_differ by auto. reflexivity.
Qed.

Lemma first_bad_cum_refused : forall rows,
  first_bad_cum_is_keys rows = true ->
  mapM (row_to_incremental SD) rows = Err TriangleError.
Proof.
  induction rows as [|r rs IH]; intros H; [discriminate|]. cbn [first_bad_cum_is_keys] in H.
  cbn [mapM]. destruct (cum_row_okb SD false r) eqn:OK.
  - destruct (row_inc_struct r OK) as [o [E _]]. rewrite E. cbn [bind]. now rewrite (IH H).
  - destruct r as [|c0 rest]; [discriminate|].
    rewrite !andb_true_iff, negb_true_iff in H. destruct H as [[[_ D0] N0] B].
    apply nodupb_NoDup in N0.
    cbn [row_to_incremental off_first SD].
    rewrite mk_inc_ok by (auto; apply cell_dates_ps_le_ev in D0; lia). cbn [bind].
    rewrite (keys_broken_tail c0 rest c0 N0 B). reflexivity.
Qed.

(* ---- the model meets spec_cum ---- *)
Lemma model_meets_spec_cum t :
  spec_cum t (to_incremental SD t) (bind (to_incremental SD t) (to_cumulative SD)) = true.
Proof.
  unfold spec_cum. rewrite !andb_true_iff. repeat split.
  - (* structure *)
    destruct (cum_hyp false t) eqn:H; [|reflexivity]. cbn [implb].
    unfold cum_hyp in H. rewrite !andb_true_iff in H. destruct H as [[[NI RO] OK] EQ].
    apply cells_eqb_eq in EQ.
    destruct (tri_inc_struct_heads _ RO OK) as [outs [E [S [SIM HI]]]].
    rewrite EQ in E. rewrite E.
    assert (RO' : rows_okb outs = true) by now rewrite (rows_okb_ext _ _ SIM).
    assert (AS' : forallb row_ascb outs = true).
    { rewrite (rows_ascb_ext _ _ SIM). eapply rows_asc_of; [|exact OK]. apply cum_row_okb_asc. }
    rewrite (rows_of_concat outs RO' AS'), S, cells_eqb_refl, !andb_true_r.
    destruct t as [|c t']; [reflexivity|].
    destruct outs as [|o os].
    + inversion SIM as [HR|]. rewrite <- HR in EQ. discriminate.
    + apply is_incremental_concat_true. now inversion HI.
  - (* exact round trip *)
    destruct (cum_hyp true t) eqn:H; [|reflexivity]. cbn [implb].
    unfold cum_hyp in H. rewrite !andb_true_iff in H. destruct H as [[[NI RO] OK] EQ].
    apply cells_eqb_eq in EQ.
    destruct (tri_inc_cum _ RO OK) as [incs [E1 E2]]. rewrite EQ in E1, E2.
    rewrite E1. cbn [bind]. rewrite E2. apply res_eqb_refl.
  - (* refusal *)
    destruct (negb (is_incremental t)) eqn:NI; [|reflexivity]. cbn [andb].
    destruct (first_bad_cum_is_keys (rows_of t)) eqn:H; [|reflexivity]. cbn [implb].
    apply negb_true_iff in NI. unfold to_incremental. rewrite NI.
    rewrite (first_bad_cum_refused _ H). reflexivity.
Qed.
