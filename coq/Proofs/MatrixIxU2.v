(** C14 -- the Matrix round trip, generalised, UNBOUNDED version of Proofs/MatrixIxP2.v (continues
    Proofs/MatrixIxU.v; calendar side conditions are lower bounds MINID <= id only):
    (B) cells may carry any non-empty subset of the requested fields, listed in the order of `fields`;
    (C) incremental triangles whose previous evaluation dates are the previous matrix columns.
    One predicate [cell_ok2 k ix inc] and one theorem [matrix_round_trip_perm2] cover both; the
    corollaries [matrix_round_trip_nested_sub] and [matrix_round_trip_incremental] discharge the
    index side conditions from index_from_triangle as in MatrixIxU.matrix_round_trip_nested. *)
From Coq Require Import ZArith List Bool Lia ZifyBool Permutation.
From Bermuda Require Import Model.Base Lib.Calendar Model.Frame Model.MatrixIx.
From Bermuda Require Import Proofs.FrameLib Proofs.MatrixIxU.
Import ListNotations.
Local Open Scope Z_scope.

(* ====================================================================================== *)
(** * Small dictionary facts *)

Lemma assoc_some_in {V} (f : str) (d : list (str * V)) v : assoc f d = Some v -> In (f, v) d.
Proof.
  induction d as [|[k' v'] d IH]; cbn [assoc]; [discriminate|].
  destruct (str_eqb f k') eqn:E.
  - intros H. inversion H; subst. apply mx_str_eqb_eq in E. subst. left. reflexivity.
  - intros H. right. apply IH. exact H.
Qed.
Lemma assoc_none_notin {V} (f : str) (d : list (str * V)) : assoc f d = None -> ~ In f (keys d).
Proof.
  induction d as [|[k' v'] d IH]; cbn [assoc keys map fst]; [intros _ []|].
  destruct (str_eqb f k') eqn:E; [discriminate|].
  intros H [Hk|Hin]; [|exact (IH H Hin)].
  subst k'. rewrite (proj2 (mx_str_eqb_eq f f) eq_refl) in E. discriminate.
Qed.
Lemma addm_month_end' : forall i k, MINID <= i -> addm (month_end i) k = month_end (i + k).
Proof. exact addm_month_end. Qed.

(* ====================================================================================== *)
(** * Cells on the grid of an index: any non-empty ordered subset of the fields; cumulative, or
      incremental with the previous column as previous evaluation date *)

Definition coords_ok (k : stepkind) (ix : mindex) (c : cell) (s lag : Z) : Prop :=
  ps c = month_start s /\ pe c = month_end (s + exp_res ix - 1) /\
  ev c = month_end (s + exp_res ix - 1 + lag) /\
  MINID <= s /\ MINID <= s + exp_res ix - 1 + lag /\
  exp_origin ix <= s /\ (exp_res ix | s - exp_origin ix) /\
  dev_origin ix <= lag /\ (step_of k ix | lag - dev_origin ix).

(* inc = false: CumulativeCell.  inc = true: IncrementalCell whose prev_evaluation_date is the day
   before the period start in the first column and the evaluation date of the previous column
   (one step earlier) otherwise -- exactly what matrix_to_triangle rebuilds. *)
Definition kind_ok (k : stepkind) (ix : mindex) (inc : bool) (c : cell) (s lag : Z) : Prop :=
  if inc
  then ckind c = KInc /\
       prev c = Some (if lag =? dev_origin ix then month_start s - 1
                      else month_end (s + exp_res ix - 1 + (lag - step_of k ix)))
  else ckind c = KCum /\ prev c = None.

Definition content_ok (ix : mindex) (c : cell) : Prop :=
  ordered_in (ix_fields ix) (keys (cvals c)) = true /\ cvals c <> [] /\
  Forall (fun fv => exists x, snd fv = VNum x) (cvals c) /\
  fl_meta (cmeta c) = cmeta c /\ In (cmeta c) (ix_slices ix).

Definition cell_ok2 (k : stepkind) (ix : mindex) (inc : bool) (c : cell) : Prop :=
  exists s lag, coords_ok k ix c s lag /\ kind_ok k ix inc c s lag /\ content_ok ix c.

Section MatrixCell2.
  Variables (ix : mindex) (k : stepkind) (inc : bool).
  Hypothesis Hres : 0 < exp_res ix.
  Hypothesis Hstep : 0 < step_of k ix.
  Hypothesis Hfields : NoDup (ix_fields ix).
  Hypothesis Hslices : NoDup (ix_slices ix).

  Notation si_of' := (si_of ix).
  Notation p_of' := (p_of ix).
  Notation d_of' := (d_of ix k).
  Notation ckey' := (ckey ix k).
  Notation cell_entries' := (cell_entries ix k).

  Lemma coords_ok_keys : forall c s lag, coords_ok k ix c s lag ->
    cell_lag c = lag /\
    resolve_exp ix (ps c) = Ok (p_of' c) /\ resolve_dev k ix (cell_lag c) = Ok (d_of' c) /\
    0 <= p_of' c /\ 0 <= d_of' c /\
    s = exp_origin ix + p_of' c * exp_res ix /\ lag = dev_origin ix + d_of' c * step_of k ix.
  Proof.
    intros c s lag (Hps & Hpe & Hev & Hs & Hr1 & Ho & De & Hl & Dl).
    assert (Hlag : cell_lag c = lag).
    { unfold cell_lag. rewrite Hpe, Hev, lag_months_ends by lia. lia. }
    destruct (unresolve_resolve_exp ix s Hres Ho Hs De) as [p [Ep [Hp Up]]].
    destruct (unresolve_resolve_dev k ix lag Hstep Hl Dl) as [d [Ed [Hd Ud]]].
    unfold unresolve_dev in Ud.
    unfold p_of, d_of. rewrite Hlag, Hps, Ep, Ed.
    repeat split; try assumption; try lia.
  Qed.

  Lemma content_keys_in : forall c, content_ok ix c ->
    forall fv, In fv (cvals c) -> In (fst fv) (ix_fields ix).
  Proof.
    intros c (Hord & _) fv Hfv. apply ordered_in_spec in Hord.
    assert (H : In (fst fv) (keys (cvals c))) by (apply in_map; exact Hfv).
    rewrite Hord in H. apply filter_In in H. destruct H as [H _]. exact H.
  Qed.
  Lemma content_keys_NoDup : forall c, content_ok ix c -> NoDup (keys (cvals c)).
  Proof.
    intros c (Hord & _). apply ordered_in_spec in Hord. rewrite Hord. apply NoDup_filter. exact Hfields.
  Qed.

  Lemma cell_ok2_writable : forall c, cell_ok2 k ix inc c -> writable ix k c.
  Proof.
    intros c (s & lag & Hco & _ & Hct).
    destruct (coords_ok_keys c s lag Hco) as (_ & Ep & Ed & _).
    pose proof (content_keys_in c Hct) as Hin. destruct Hct as (_ & _ & Hv & _ & Hm).
    split; [exact Hm|]. split; [eexists; exact Ep|]. split; [eexists; exact Ed|].
    rewrite Forall_forall in *. intros fv Hfv. split; [apply Hin; exact Hfv|apply Hv; exact Hfv].
  Qed.

  Lemma ckey_coords2 : forall c c', cell_ok2 k ix inc c -> cell_ok2 k ix inc c' -> ckey' c = ckey' c' ->
    cmeta c = cmeta c' /\ ps c = ps c' /\ ev c = ev c'.
  Proof.
    intros c c' (s & lag & Hco & _ & Hct) (s' & lag' & Hco' & _ & Hct') E.
    destruct (coords_ok_keys c s lag Hco) as (_ & _ & _ & _ & _ & Us & Ul).
    destruct (coords_ok_keys c' s' lag' Hco') as (_ & _ & _ & _ & _ & Us' & Ul').
    destruct Hco as (Hps & _ & Hev & _). destruct Hco' as (Hps' & _ & Hev' & _).
    destruct Hct as (_ & _ & _ & _ & Hm). destruct Hct' as (_ & _ & _ & _ & Hm').
    unfold ckey in E. inversion E as [[E1 E2 E3]].
    split; [apply (idx_inj meta_seqb mx_meta_seqb_eq (ix_slices ix)); assumption|].
    rewrite Hps, Hps', Hev, Hev', Us, Us', Ul, Ul', E2, E3. split; reflexivity.
  Qed.

  Variable t : list cell.
  Hypothesis Hok : forall c, In c t -> cell_ok2 k ix inc c.
  Hypothesis Huniq : forall c c', In c t -> In c' t ->
    cmeta c = cmeta c' -> ps c = ps c' -> ev c = ev c' -> c = c'.

  Lemma ckey_unique2 : forall c c', In c t -> In c' t -> ckey' c' = ckey' c -> c' = c.
  Proof.
    intros c c' Hc Hc' E. destruct (ckey_coords2 c' c (Hok c' Hc') (Hok c Hc) E) as (E1 & E2 & E3).
    apply Huniq; assumption.
  Qed.

  Lemma entries_NoDup2 : forall c, content_ok ix c -> NoDup (map fst (cell_entries' c)).
  Proof.
    intros c Hct. unfold cell_entries. rewrite map_rev. apply NoDup_rev. rewrite map_map.
    unfold entry. cbn [fst].
    rewrite <- (map_map fst (fun f => (si_of' c, idx str_eqb (ix_fields ix) f, p_of' c, d_of' c))).
    apply NoDup_map_inj_in; [|exact (content_keys_NoDup c Hct)].
    intros a b Ha Hb E. inversion E.
    apply in_map_iff in Ha, Hb. destruct Ha as [fa [<- Hfa]], Hb as [fb [<- Hfb]].
    apply (idx_inj str_eqb mx_str_eqb_eq (ix_fields ix)); try assumption;
      apply (content_keys_in c Hct); assumption.
  Qed.

  Let data := flat_map cell_entries' (rev t).

  Lemma cell_content : forall c, In c t -> content_ok ix c.
  Proof. intros c Hc. destruct (Hok c Hc) as (s & lag & _ & _ & H). exact H. Qed.

  Lemma lookup_written2 : forall c fv, In c t -> In fv (cvals c) ->
    mlookup (si_of' c, idx str_eqb (ix_fields ix) (fst fv), p_of' c, d_of' c) data = Some (vnum (snd fv)).
  Proof.
    intros c fv Hc Hfv. unfold data.
    destruct (mlookup_flat_unique ix k (rev t) c (idx str_eqb (ix_fields ix) (fst fv))) as [_ Hb].
    { intros c' Hc' E. apply ckey_unique2; [exact Hc|apply in_rev; exact Hc'|exact E]. }
    rewrite Hb by (apply in_rev; rewrite rev_involutive; exact Hc).
    apply mlookup_in_nodup; [apply entries_NoDup2; apply cell_content; exact Hc|].
    unfold cell_entries. apply in_rev. rewrite rev_involutive.
    apply (in_map (entry ix k c)) in Hfv. exact Hfv.
  Qed.

  Lemma lookup_unwritten : forall c f, In c t -> In f (ix_fields ix) -> ~ In f (keys (cvals c)) ->
    mlookup (si_of' c, idx str_eqb (ix_fields ix) f, p_of' c, d_of' c) data = None.
  Proof.
    intros c f Hc Hf Hnk. unfold data.
    destruct (mlookup_flat_unique ix k (rev t) c (idx str_eqb (ix_fields ix) f)) as [Ha _].
    { intros c' Hc' E. apply ckey_unique2; [exact Hc|apply in_rev; exact Hc'|exact E]. }
    apply Ha. apply mlookup_none. intros e He Efst.
    destruct (entries_key ix k c e He) as [fv [Hfv ->]]. unfold entry in Efst; cbn [fst] in Efst.
    injection Efst as Ei. apply Hnk.
    assert (Ef : fst fv = f).
    { apply (idx_inj str_eqb mx_str_eqb_eq (ix_fields ix));
        [apply (content_keys_in c (cell_content c Hc)); exact Hfv|exact Hf|exact Ei]. }
    subst f. apply in_map. exact Hfv.
  Qed.

  Lemma vals_of_cell2 : forall c, In c t ->
    flat_map (fun fi_f : Z * str =>
                match mlookup (si_of' c, fst fi_f, p_of' c, d_of' c) data with
                | Some x => [(snd fi_f, VNum (Num true x))]
                | None => []
                end)
             (combine (zrange (Z.of_nat (List.length (ix_fields ix)))) (ix_fields ix))
    = map (fun kv => (fst kv, fl_value (snd kv))) (cvals c).
  Proof.
    intros c Hc.
    rewrite (combine_zrange_idx str_eqb mx_str_eqb_eq _ Hfields), flat_map_map'. cbn [fst snd].
    pose proof (cell_content c Hc) as (Hord & _ & Hv & _).
    transitivity (flat_map (fun f => match assoc f (cvals c) with
                                     | Some v => [(f, fl_value v)]
                                     | None => []
                                     end) (ix_fields ix)).
    - apply flat_map_ext_in'. intros f Hf. destruct (assoc f (cvals c)) as [v|] eqn:Ea.
      + apply assoc_some_in in Ea. pose proof (lookup_written2 c (f, v) Hc Ea) as Hl.
        cbn [fst snd] in Hl. rewrite Hl.
        rewrite Forall_forall in Hv. destruct (Hv (f, v) Ea) as [x Hx]. cbn [snd] in Hx. subst v.
        reflexivity.
      + rewrite (lookup_unwritten c f Hc Hf (assoc_none_notin f (cvals c) Ea)). reflexivity.
    - apply (rebuild_dict fl_value (ix_fields ix) Hfields). apply ordered_in_spec. exact Hord.
  Qed.

  Variables np nd : Z.
  Let mat := mkMat ix inc np nd data.

  Lemma matrix_cell_hit2 : forall c, In c t ->
    matrix_cell k mat (si_of' c) (cmeta c) (p_of' c) (d_of' c) = [fl_cell c].
  Proof.
    intros c Hc. unfold matrix_cell, mat. cbn [m_index m_data m_incremental].
    rewrite (vals_of_cell2 c Hc).
    destruct (Hok c Hc) as (s & lag & Hco & Hkd & Hct).
    destruct (coords_ok_keys c s lag Hco) as (_ & _ & _ & _ & Hd0 & Us & Ul).
    destruct Hco as (Hps & Hpe & Hev & Hs & Hr1 & _).
    destruct Hct as (_ & Hne & _ & Hfm & _).
    destruct (cvals c) as [|fv0 l0] eqn:Ecv; [congruence|].
    cbn [map]. unfold fl_cell. rewrite Ecv, Hfm, Hps, Hpe, Hev. cbn [map].
    unfold unresolve_exp_start, unresolve_exp_end, unresolve_dev. rewrite <- Us.
    replace (exp_origin ix + (p_of' c + 1) * exp_res ix - 1) with (s + exp_res ix - 1) by lia.
    rewrite !addm_month_end' by lia. rewrite <- Ul.
    unfold kind_ok in Hkd. destruct inc.
    - destruct Hkd as [Hk1 Hk2]. rewrite Hk1, Hk2.
      replace (s + exp_res ix - 1 + (dev_origin ix + (d_of' c - 1) * step_of k ix))
        with (s + exp_res ix - 1 + (lag - step_of k ix)) by lia.
      assert (Eb : (d_of' c =? 0) = (lag =? dev_origin ix)).
      { destruct (d_of' c =? 0) eqn:E1, (lag =? dev_origin ix) eqn:E2; try reflexivity; exfalso; nia. }
      rewrite Eb. reflexivity.
    - destruct Hkd as [Hk1 Hk2]. rewrite Hk1, Hk2. reflexivity.
  Qed.

  Lemma matrix_cell_miss2 : forall si m j kk, (forall c, In c t -> ckey' c <> (si, j, kk)) ->
    matrix_cell k mat si m j kk = [].
  Proof.
    intros si m j kk H. unfold matrix_cell, mat. cbn [m_index m_data m_incremental].
    rewrite flat_map_nil'; [reflexivity|]. intros [fi f] _. cbn [fst snd]. unfold data.
    rewrite mlookup_flat_none; [reflexivity|]. intros c Hc. apply H. apply in_rev. exact Hc.
  Qed.

  Hypothesis Hnodup : NoDup t.

  (* the entry (m, j, kk) of the matrix turns back into exactly the cells of t with that key *)
  Lemma matrix_cell_bucket2 : forall m j kk, In m (ix_slices ix) ->
    matrix_cell k mat (idx meta_seqb (ix_slices ix) m) m j kk
    = map fl_cell (filter (fun c => key3_eqb (ckey' c) (idx meta_seqb (ix_slices ix) m, j, kk)) t).
  Proof.
    intros m j kk Hm.
    destruct (filter (fun c => key3_eqb (ckey' c) (idx meta_seqb (ix_slices ix) m, j, kk)) t)
      as [|c rest] eqn:F.
    - cbn [map]. apply matrix_cell_miss2. intros c Hc E.
      pose proof (filter_nil_false _ _ F c Hc) as Hf. cbv beta in Hf.
      rewrite E, (proj2 (key3_eqb_eq _ _) eq_refl) in Hf. discriminate.
    - assert (Hin : In c (c :: rest)) by (left; reflexivity). rewrite <- F in Hin.
      apply filter_In in Hin. destruct Hin as [Hc Ek]. apply key3_eqb_eq in Ek.
      assert (Hrest : rest = []).
      { destruct rest as [|r rest']; [reflexivity|]. exfalso.
        assert (Hr : In r (c :: r :: rest')) by (right; left; reflexivity). rewrite <- F in Hr.
        apply filter_In in Hr. destruct Hr as [Hr Er]. apply key3_eqb_eq in Er.
        assert (r = c) by (apply ckey_unique2; [exact Hc|exact Hr|congruence]). subst r.
        pose proof (NoDup_filter (fun c => key3_eqb (ckey' c) (idx meta_seqb (ix_slices ix) m, j, kk)) Hnodup) as Hn.
        rewrite F in Hn. inversion Hn as [|? ? Hx _]. apply Hx. left. reflexivity. }
      subst rest. cbn [map]. unfold ckey in Ek. injection Ek as E1 E2 E3.
      assert (Em : cmeta c = m).
      { pose proof (cell_content c Hc) as (_ & _ & _ & _ & Hcm).
        apply (idx_inj meta_seqb mx_meta_seqb_eq (ix_slices ix)); assumption. }
      rewrite <- E2, <- E3, <- Em. exact (matrix_cell_hit2 c Hc).
  Qed.
End MatrixCell2.

(* ====================================================================================== *)
(** * Triangle level *)

Lemma p_of_mono2 : forall ix k c c1 s lag s1 lag1, 0 < exp_res ix -> 0 < step_of k ix ->
  coords_ok k ix c s lag -> coords_ok k ix c1 s1 lag1 -> ps c <= ps c1 -> p_of ix c <= p_of ix c1.
Proof.
  intros ix k c c1 s lag s1 lag1 Hres Hstep Hc Hc1 Hle.
  destruct (coords_ok_keys ix k Hres Hstep c s lag Hc) as (_ & _ & _ & _ & _ & Us & _).
  destruct (coords_ok_keys ix k Hres Hstep c1 s1 lag1 Hc1) as (_ & _ & _ & _ & _ & Us1 & _).
  destruct Hc as (Hps & _ & _ & Hs & _). destruct Hc1 as (Hps1 & _ & _ & Hs1 & _).
  rewrite Hps, Hps1 in Hle.
  assert (Hss : s <= s1).
  { destruct (Z_le_gt_dec s s1) as [H|H]; [exact H|]. exfalso.
    pose proof (month_start_lt s1 s ltac:(lia)). lia. }
  nia.
Qed.
Lemma d_of_mono2 : forall ix k c c1 s lag s1 lag1, 0 < exp_res ix -> 0 < step_of k ix ->
  coords_ok k ix c s lag -> coords_ok k ix c1 s1 lag1 -> cell_lag c <= cell_lag c1 ->
  d_of ix k c <= d_of ix k c1.
Proof.
  intros ix k c c1 s lag s1 lag1 Hres Hstep Hc Hc1 Hle.
  destruct (coords_ok_keys ix k Hres Hstep c s lag Hc) as (Hl & _ & _ & _ & _ & _ & Ul).
  destruct (coords_ok_keys ix k Hres Hstep c1 s1 lag1 Hc1) as (Hl1 & _ & _ & _ & _ & _ & Ul1).
  rewrite Hl, Hl1 in Hle. nia.
Qed.

Theorem matrix_round_trip_perm2 : forall msp k inc t fields ix,
  ms_resolve_step msp = k -> ms_inverse_step msp = k ->
  forallb month_aligned_cell t = true -> semi_regular t = true ->
  index_from_triangle t fields = Ok ix ->
  0 < exp_res ix -> 0 < step_of k ix -> NoDup fields ->
  (forall c, In c t -> cell_ok2 k ix inc c) ->
  NoDup t ->
  (forall c c', In c t -> In c' t -> cmeta c = cmeta c' -> ps c = ps c' -> ev c = ev c' -> c = c') ->
  exists out, matrix_round_trip msp t fields = Ok out /\ Permutation out (floatify t).
Proof.
  intros msp k inc t fields ix Hk Hinv Hal Hsr Hix Hres Hstep Hfn Hok Hnd Huniq.
  destruct (index_from_triangle_grid t fields ix Hix) as (Hsl & Hfl & _).
  destruct (index_from_triangle_inv t fields ix Hix) as (c0 & t' & Et & Hfne & _).
  assert (Hslices : NoDup (ix_slices ix)) by (rewrite Hsl; apply (dedup_NoDup meta_seqb mx_meta_seqb_eq)).
  assert (Hfields : NoDup (ix_fields ix)) by (rewrite Hfl; exact Hfn).
  assert (Hwr : forall c, In c t -> writable ix k c)
    by (intros c Hc; apply (cell_ok2_writable ix k inc Hres Hstep c (Hok c Hc))).
  unfold matrix_round_trip, triangle_to_matrix. rewrite Hal, Hsr. cbn [negb]. rewrite Hix. cbn [bind].
  rewrite Et. cbv beta iota zeta.
  destruct (list_max_map_in ps c0 t') as (c1 & Hc1 & E1 & Hmax1).
  destruct (list_max_map_in cell_lag c0 t') as (c2 & Hc2 & E2 & Hmax2).
  change (list_max (ps c0) (map ps (c0 :: t')) = ps c1) in E1.
  rewrite E1, E2. rewrite <- Et in Hc1, Hc2, Hmax1, Hmax2 |- *.
  destruct (Hok c1 Hc1) as (s1 & lag1 & Hco1 & _).
  destruct (Hok c2 Hc2) as (s2 & lag2 & Hco2 & _).
  destruct (coords_ok_keys ix k Hres Hstep c1 s1 lag1 Hco1) as (_ & Ep1 & _ & Hp1 & _).
  destruct (coords_ok_keys ix k Hres Hstep c2 s2 lag2 Hco2) as (_ & _ & Ed2 & _ & Hd2 & _).
  rewrite Ep1, Hk, Ed2. cbn [bind].
  rewrite (fold_write_ok msp ix k Hk t Hwr).
  cbn [bind]. rewrite app_nil_r.
  eexists. split; [reflexivity|].
  unfold matrix_to_triangle. rewrite Hinv. unfold matrix_to_triangle_with. cbn [m_index m_np m_nd].
  assert (Einc : tri_is_inc t = inc).
  { rewrite Et. unfold tri_is_inc, is_inc.
    destruct (Hok c0 ltac:(rewrite Et; left; reflexivity)) as (s0 & lag0 & _ & Hkd & _).
    unfold kind_ok in Hkd. destruct inc; destruct Hkd as [Hkd _]; rewrite Hkd; reflexivity. }
  rewrite Einc.
  set (mat := mkMat ix inc (p_of ix c1 + 1) (d_of ix k c2 + 1) (flat_map (cell_entries ix k) (rev t))).
  rewrite (combine_zrange_idx meta_seqb mx_meta_seqb_eq _ Hslices), flat_map_map'. cbn [fst snd].
  rewrite (flat_map_prod3 (fun m j kk => matrix_cell k mat (idx meta_seqb (ix_slices ix) m) m j kk)).
  set (grid := list_prod (ix_slices ix) (list_prod (zrange (m_np mat)) (zrange (m_nd mat)))).
  set (sel := fun (g : meta * (Z * Z)) (c : cell) =>
                key3_eqb (ckey ix k c) (idx meta_seqb (ix_slices ix) (fst g), fst (snd g), snd (snd g))).
  rewrite (flat_map_ext_in' _ (fun g => map fl_cell (filter (fun c => sel g c) t))).
  2:{ intros [m [j kk]] Hg. cbn [fst snd]. apply in_prod_iff in Hg. destruct Hg as [Hm _].
      apply (matrix_cell_bucket2 ix k inc Hres Hstep Hfields t Hok Huniq); assumption. }
  rewrite map_flat_map'. unfold floatify. apply Permutation_map. apply bucket_perm.
  intros c Hc.
  assert (Hgrid : NoDup grid).
  { apply NoDup_list_prod'; [exact Hslices|]. apply NoDup_list_prod'; apply zrange_NoDup. }
  destruct (Hok c Hc) as (s & lag & Hco & _ & Hct).
  destruct (coords_ok_keys ix k Hres Hstep c s lag Hco) as (_ & _ & _ & Hp & Hd & _).
  assert (Hcm : In (cmeta c) (ix_slices ix)) by (destruct Hct as (_ & _ & _ & _ & H); exact H).
  assert (Hin : In (cmeta c, (p_of ix c, d_of ix k c)) grid).
  { apply in_prod_iff. split; [exact Hcm|]. apply in_prod_iff. unfold mat. cbn [m_np m_nd].
    split; apply zrange_In.
    - pose proof (p_of_mono2 ix k c c1 s lag s1 lag1 Hres Hstep Hco Hco1 (Hmax1 c Hc)). lia.
    - pose proof (d_of_mono2 ix k c c2 s lag s2 lag2 Hres Hstep Hco Hco2 (Hmax2 c Hc)). lia. }
  destruct (NoDup_split_at _ _ Hgrid Hin) as (g1 & g2 & Eg & Hn1 & Hn2).
  exists g1, (cmeta c, (p_of ix c, d_of ix k c)), g2. split; [exact Eg|]. split.
  - unfold sel. cbn [fst snd]. apply key3_eqb_eq. reflexivity.
  - intros g' Hg'. destruct (sel g' c) eqn:Es; [|reflexivity]. exfalso.
    unfold sel in Es. apply key3_eqb_eq in Es. unfold ckey in Es. injection Es as Es1 Es2 Es3.
    assert (Hg'in : In g' grid) by (rewrite Eg; apply in_or_app; destruct Hg'; [left|right; right]; assumption).
    destruct g' as [m' [j' kk']]. cbn [fst snd] in *.
    apply in_prod_iff in Hg'in. destruct Hg'in as [Hm' _].
    assert (cmeta c = m') by (apply (idx_inj meta_seqb mx_meta_seqb_eq (ix_slices ix)); assumption).
    subst m' j' kk'. destruct Hg'; contradiction.
Qed.

(* ====================================================================================== *)
(** * Index side conditions discharged (step = min(dev_res, exp_res), nested resolutions) *)

Definition grid_coords (L : Z) (c : cell) (s e : Z) : Prop :=
  ps c = month_start s /\ pe c = month_end (s + L - 1) /\ ev c = month_end e /\
  MINID <= s /\ 0 < L /\ MINID <= e.
Definition grid_content (fields : list str) (c : cell) : Prop :=
  ordered_in fields (keys (cvals c)) = true /\ cvals c <> [] /\
  Forall (fun fv => exists x, snd fv = VNum x) (cvals c) /\ fl_meta (cmeta c) = cmeta c.

(* (B) cumulative cell with a non-empty subset of the fields, in the order of `fields` *)
Definition grid_cell_sub (L : Z) (fields : list str) (c : cell) : Prop :=
  exists s e, grid_coords L c s e /\ (ckind c = KCum /\ prev c = None) /\ grid_content fields c.
(* (C) incremental cell whose previous evaluation date is the previous column of the matrix *)
Definition grid_cell_inc (ix : mindex) (fields : list str) (c : cell) : Prop :=
  exists s e, grid_coords (exp_res ix) c s e /\
    (ckind c = KInc /\
     prev c = Some (if e - (s + exp_res ix - 1) =? dev_origin ix then month_start s - 1
                    else month_end (e - step_of SMin ix))) /\
    grid_content fields c.

Lemma grid_coords_ok : forall t fields ix c s e,
  index_from_triangle t fields = Ok ix ->
  ((dev_res ix | exp_res ix) \/ (exp_res ix | dev_res ix)) ->
  In c t -> grid_coords (exp_res ix) c s e -> coords_ok SMin ix c s (e - (s + exp_res ix - 1)).
Proof.
  intros t fields ix c s e Hix Hn Hc (Hps & Hpe & Hev & Hs & HL & He).
  destruct (index_from_triangle_grid t fields ix Hix) as (_ & _ & _ & Hg & _).
  destruct (Hg c Hc) as (Ho & De & _ & Hlo).
  pose proof (index_from_triangle_lag_grid t fields ix Hix HL Hn c Hc) as Dl.
  assert (Hlag : cell_lag c = e - (s + exp_res ix - 1)).
  { unfold cell_lag. rewrite Hpe, Hev, lag_months_ends by lia. reflexivity. }
  rewrite Hps, month_id_start in Ho, De by lia. rewrite Hlag in Hlo, Dl.
  unfold coords_ok.
  replace (s + exp_res ix - 1 + (e - (s + exp_res ix - 1))) with e by lia.
  repeat split; try assumption; try lia.
Qed.
Lemma grid_content_ok : forall t fields ix c,
  index_from_triangle t fields = Ok ix -> In c t -> grid_content fields c -> content_ok ix c.
Proof.
  intros t fields ix c Hix Hc (Hord & Hne & Hv & Hfm).
  destruct (index_from_triangle_grid t fields ix Hix) as (Hsl & Hfl & _).
  unfold content_ok. rewrite Hfl, Hsl. repeat split; try assumption.
  apply (dedup_in meta_seqb mx_meta_seqb_eq). apply in_map. exact Hc.
Qed.

Theorem matrix_round_trip_nested2 : forall msp inc t fields ix,
  ms_resolve_step msp = SMin -> ms_inverse_step msp = SMin ->
  semi_regular t = true ->
  index_from_triangle t fields = Ok ix ->
  ((dev_res ix | exp_res ix) \/ (exp_res ix | dev_res ix)) ->
  NoDup fields ->
  (forall c, In c t -> exists s e, grid_coords (exp_res ix) c s e /\
                                   kind_ok SMin ix inc c s (e - (s + exp_res ix - 1)) /\
                                   grid_content fields c) ->
  NoDup t ->
  (forall c c', In c t -> In c' t -> cmeta c = cmeta c' -> ps c = ps c' -> ev c = ev c' -> c = c') ->
  exists out, matrix_round_trip msp t fields = Ok out /\ Permutation out (floatify t).
Proof.
  intros msp inc t fields ix Hk Hinv Hsr Hix Hn Hfn Hgc Hnd Huniq.
  destruct (index_from_triangle_grid t fields ix Hix) as (_ & _ & Hdr & _).
  destruct (index_from_triangle_inv t fields ix Hix) as (c0 & t' & Et & _).
  assert (Hres : 0 < exp_res ix).
  { destruct (Hgc c0 ltac:(rewrite Et; left; reflexivity)) as (s & e & (_ & _ & _ & _ & HL & _) & _). exact HL. }
  apply (matrix_round_trip_perm2 msp SMin inc t fields ix); try assumption.
  - apply forallb_forall. intros c Hc.
    destruct (Hgc c Hc) as (s & e & (Hps & Hpe & Hev & Hs & HL & He) & _).
    unfold month_aligned_cell. rewrite Hps, Hpe, Hev.
    rewrite month_start_is_start, !month_end_is_end by lia. reflexivity.
  - unfold step_of. lia.
  - intros c Hc. destruct (Hgc c Hc) as (s & e & Hco & Hkd & Hct).
    exists s, (e - (s + exp_res ix - 1)). split; [|split].
    + apply (grid_coords_ok t fields ix c s e Hix Hn Hc Hco).
    + exact Hkd.
    + apply (grid_content_ok t fields ix c Hix Hc Hct).
Qed.

(** (B) cumulative triangles whose cells carry any non-empty subset of the requested fields *)
Theorem matrix_round_trip_nested_sub : forall msp t fields ix,
  ms_resolve_step msp = SMin -> ms_inverse_step msp = SMin ->
  semi_regular t = true ->
  index_from_triangle t fields = Ok ix ->
  ((dev_res ix | exp_res ix) \/ (exp_res ix | dev_res ix)) ->
  NoDup fields ->
  (forall c, In c t -> grid_cell_sub (exp_res ix) fields c) ->
  NoDup t ->
  (forall c c', In c t -> In c' t -> cmeta c = cmeta c' -> ps c = ps c' -> ev c = ev c' -> c = c') ->
  exists out, matrix_round_trip msp t fields = Ok out /\ Permutation out (floatify t).
Proof.
  intros msp t fields ix Hk Hinv Hsr Hix Hn Hfn Hgc Hnd Huniq.
  (* grid_cell_sub is kind_ok ... false up to unfolding *)
  apply (matrix_round_trip_nested2 msp false t fields ix); assumption.
Qed.

(** (C) incremental triangles whose previous evaluation dates are the previous columns *)
Theorem matrix_round_trip_incremental : forall msp t fields ix,
  ms_resolve_step msp = SMin -> ms_inverse_step msp = SMin ->
  semi_regular t = true ->
  index_from_triangle t fields = Ok ix ->
  ((dev_res ix | exp_res ix) \/ (exp_res ix | dev_res ix)) ->
  NoDup fields ->
  (forall c, In c t -> grid_cell_inc ix fields c) ->
  NoDup t ->
  (forall c c', In c t -> In c' t -> cmeta c = cmeta c' -> ps c = ps c' -> ev c = ev c' -> c = c') ->
  exists out, matrix_round_trip msp t fields = Ok out /\ Permutation out (floatify t).
Proof.
  intros msp t fields ix Hk Hinv Hsr Hix Hn Hfn Hgc Hnd Huniq.
  apply (matrix_round_trip_nested2 msp true t fields ix); try assumption;
    intros c Hc; destruct (Hgc c Hc) as (s & e & Hco & [Hk1 Hk2] & Hct); exists s, e;
    (split; [exact Hco|]); (split; [|exact Hct]);
    unfold kind_ok; (split; [exact Hk1|]);
    replace (s + exp_res ix - 1 + (e - (s + exp_res ix - 1) - step_of SMin ix))
      with (e - step_of SMin ix) by lia; exact Hk2.
Qed.

(* the old hypothesis (every cell carries exactly `fields`) is a special case of (B) *)
Lemma ordered_in_self : forall fields, ordered_in fields fields = true.
Proof.
  intros fields. unfold ordered_in. apply (list_eqb_eq str_eqb str_eqb_eq).
  symmetry. apply filter_id. intros x Hx. apply mem_In. exact Hx.
Qed.
Lemma grid_cell_is_sub : forall L fields c, fields <> [] -> grid_cell L fields c -> grid_cell_sub L fields c.
Proof.
  intros L fields c Hne (s & e & Hps & Hpe & Hev & Hs & HL & He & Hkd & Hpv & Hf & Hv & Hfm).
  exists s, e. unfold grid_coords, grid_content. repeat split; try assumption; try lia.
  - unfold keys. rewrite Hf. apply ordered_in_self.
  - intros E. apply Hne. rewrite <- Hf, E. reflexivity.
Qed.

(* NOT PROVED (Matrix form; these are not equalities of the implementation, so no theorem is expected
   without changing the right-hand side):
   - cells holding one-element sample arrays: VArr _ [x] is written as x and comes back as VNum, whereas
     floatify keeps VArr true [x];
   - cells carrying a field that is not in `fields` (skipped by `if field in fields`, so it is lost);
   - incremental triangles whose prev_evaluation_date is not the previous column (finding G6);
   - ms_rich_inverse_step (rich_matrix_to_triangle) is only a flag in Model/MatrixIx.v. *)
