(** Z-level proleptic Gregorian calendar on ordinals (date.toordinal()), used by the structural
    models (Base.date = Z).  Executable definitions only.

    month_id / month_start / month_end mirror date_utils.month_to_id / id_to_month.
    addm is the *integer* month shift on month-aligned dates (first or last day of a month):
    the C12 check proves (by enumeration over 1970-2100) that the float-based add_months generated
    from the source agrees with it on those dates. *)
From Coq Require Import ZArith Bool.
Local Open Scope Z_scope.

Definition is_leap (y : Z) : bool :=
  (y mod 4 =? 0) && (negb (y mod 100 =? 0) || (y mod 400 =? 0)).
Definition days_in_month (y m : Z) : Z :=
  if m =? 2 then (if is_leap y then 29 else 28)
  else if (m =? 4) || (m =? 6) || (m =? 9) || (m =? 11) then 30 else 31.
Definition dbm_tbl (m : Z) : Z :=
  if m =? 1 then 0 else if m =? 2 then 31 else if m =? 3 then 59 else if m =? 4 then 90
  else if m =? 5 then 120 else if m =? 6 then 151 else if m =? 7 then 181
  else if m =? 8 then 212 else if m =? 9 then 243 else if m =? 10 then 273
  else if m =? 11 then 304 else 334.
Definition days_before_month (y m : Z) : Z :=
  dbm_tbl m + (if (2 <? m) && is_leap y then 1 else 0).
Definition days_before_year (y : Z) : Z :=
  let y1 := y - 1 in y1 * 365 + y1 / 4 - y1 / 100 + y1 / 400.
Definition ord_of_ymd (y m d : Z) : Z := days_before_year y + days_before_month y m + d.

(* CPython's _ord2ymd *)
Definition ymd_of_ord (n0 : Z) : Z * Z * Z :=
  let n := n0 - 1 in
  let n400 := n / 146097 in let n := n mod 146097 in
  let year := n400 * 400 + 1 in
  let n100 := n / 36524 in let n := n mod 36524 in
  let n4 := n / 1461 in let n := n mod 1461 in
  let n1 := n / 365 in let n := n mod 365 in
  let year := year + n100 * 100 + n4 * 4 + n1 in
  if (n1 =? 4) || (n100 =? 4) then (year - 1, 12, 31) else
  let leapyear := (n1 =? 3) && (negb (n4 =? 24) || (n100 =? 3)) in
  let month := Z.shiftr (n + 50) 5 in
  let preceding := dbm_tbl month + (if (2 <? month) && leapyear then 1 else 0) in
  let '(month, preceding) :=
    if n <? preceding then
      let month' := month - 1 in
      let dim := if month' =? 2 then (if leapyear then 29 else 28)
                 else if (month' =? 4) || (month' =? 6) || (month' =? 9) || (month' =? 11) then 30 else 31 in
      (month', preceding - dim)
    else (month, preceding) in
  (year, month, n - preceding + 1).

Definition year_of (o : Z) : Z := let '(y, _, _) := ymd_of_ord o in y.
Definition month_of (o : Z) : Z := let '(_, m, _) := ymd_of_ord o in m.
Definition day_of (o : Z) : Z := let '(_, _, d) := ymd_of_ord o in d.

(* date_utils.month_to_id / id_to_month *)
Definition month_id (o : Z) : Z := let '(y, m, _) := ymd_of_ord o in 12 * (y - 1970) + m - 1.
Definition month_start (id : Z) : Z := ord_of_ymd (1970 + id / 12) (id mod 12 + 1) 1.
Definition month_end (id : Z) : Z := month_start (id + 1) - 1.
Definition is_month_start (o : Z) : bool := day_of o =? 1.
Definition is_month_end (o : Z) : bool := day_of (o + 1) =? 1.
Definition month_aligned_period (s e : Z) : bool := is_month_start s && is_month_end e.

(* integer month shift on month-aligned dates; other days keep the day number, clamped *)
Definition addm (o k : Z) : Z :=
  let id := month_id o + k in
  if is_month_end o then month_end id
  else let d := day_of o in
       let y := 1970 + id / 12 in let m := id mod 12 + 1 in
       ord_of_ymd y m (Z.min d (days_in_month y m)).

(* integer development lag in months between two month ends (dev_lag_months on month ends) *)
Definition lag_months (a b : Z) : Z := month_id b - month_id a.
(* period length in months: Cell.period_length *)
Definition period_length (s e : Z) : Z := month_id e - month_id s + 1.
