(* Byte strings, little-endian integers and Python stream primitives (WP-CODEC: C05 / C06 / C19).

   A byte string is a [list Z]; well-formed bytes are 0..255.  The stream primitives mirror what
   the Python reader does with a file object:
     - [read_exact n]  : struct.unpack(fmt, stream.read(n)) -- fails (struct.error) on a short read
     - [take n]        : stream.read(n) -- returns FEWER bytes at EOF, never fails
   Results carry the rest of the stream so that readers compose. *)
From Coq Require Import ZArith List Bool Lia ZifyBool.
Import ListNotations.
Open Scope Z_scope.

Definition bytes := list Z.

Definition byteb (b : Z) : bool := (0 <=? b) && (b <? 256).
Definition bytesb (bs : bytes) : bool := forallb byteb bs.

(* ------------------------------------------------------------------ little endian *)
Fixpoint le_enc (n : nat) (z : Z) : bytes :=
  match n with O => [] | S n' => (z mod 256) :: le_enc n' (z / 256) end.

Fixpoint le_dec (bs : bytes) : Z :=
  match bs with [] => 0 | b :: r => b + 256 * le_dec r end.

Lemma le_enc_length n z : length (le_enc n z) = n.
Proof. revert z; induction n; intros; simpl; auto. Qed.

Lemma le_enc_bytes n z : bytesb (le_enc n z) = true.
Proof.
  revert z; induction n; intros; simpl; auto.
  rewrite IHn, andb_true_r. unfold byteb.
  pose proof (Z.mod_pos_bound z 256 ltac:(lia)). lia.
Qed.

Lemma le_dec_enc n z : 0 <= z < 256 ^ Z.of_nat n -> le_dec (le_enc n z) = z.
Proof.
  revert z; induction n; intros z H.
  - simpl in *. lia.
  - cbn [le_enc le_dec]. rewrite Nat2Z.inj_succ, Z.pow_succ_r in H by lia.
    rewrite IHn.
    + pose proof (Z.div_mod z 256 ltac:(lia)). lia.
    + split. { apply Z.div_pos; lia. } apply Z.div_lt_upper_bound; lia.
Qed.

Lemma le_dec_range bs : bytesb bs = true -> 0 <= le_dec bs < 256 ^ Z.of_nat (length bs).
Proof.
  induction bs; intros H.
  - simpl. lia.
  - cbn [bytesb forallb] in H. apply andb_true_iff in H as [Ha Hb]. specialize (IHbs Hb).
    cbn [le_dec length]. rewrite Nat2Z.inj_succ, Z.pow_succ_r by lia.
    unfold byteb in Ha. lia.
Qed.

Lemma le_enc_dec bs : bytesb bs = true -> le_enc (length bs) (le_dec bs) = bs.
Proof.
  induction bs; intros H; [reflexivity|].
  cbn [bytesb forallb] in H. apply andb_true_iff in H as [Ha Hb].
  cbn [length le_enc le_dec]. unfold byteb in Ha.
  replace ((a + 256 * le_dec bs) mod 256) with a by (Z.div_mod_to_equations; lia).
  replace ((a + 256 * le_dec bs) / 256) with (le_dec bs) by (Z.div_mod_to_equations; lia).
  now rewrite IHbs.
Qed.

(* two's complement *)
Definition to_s16 (u : Z) : Z := if u <? 32768 then u else u - 65536.
Definition of_s16 (z : Z) : Z := z mod 65536.
Definition to_s64 (u : Z) : Z := if u <? 9223372036854775808 then u else u - 18446744073709551616.
Definition of_s64 (z : Z) : Z := z mod 18446744073709551616.

Lemma of_s16_range z : 0 <= of_s16 z < 256 ^ 2.
Proof. unfold of_s16. change (256 ^ 2) with 65536. apply Z.mod_pos_bound; lia. Qed.
Lemma of_s64_range z : 0 <= of_s64 z < 256 ^ 8.
Proof. unfold of_s64. change (256 ^ 8) with 18446744073709551616. apply Z.mod_pos_bound; lia. Qed.

Lemma s16_rt z : -32768 <= z < 32768 -> to_s16 (of_s16 z) = z.
Proof.
  intros H. unfold to_s16, of_s16.
  destruct (Z.ltb_spec (z mod 65536) 32768); Z.div_mod_to_equations; lia.
Qed.

Lemma s64_rt z : -9223372036854775808 <= z < 9223372036854775808 -> to_s64 (of_s64 z) = z.
Proof.
  intros H. unfold to_s64, of_s64.
  destruct (Z.ltb_spec (z mod 18446744073709551616) 9223372036854775808);
    Z.div_mod_to_equations; lia.
Qed.

(* ------------------------------------------------------------------ stream.read(n): short at EOF *)
Fixpoint take (n : Z) (s : bytes) : bytes * bytes :=
  match s with
  | [] => ([], [])
  | b :: r => if n <=? 0 then ([], s) else let (a, c) := take (n - 1) r in (b :: a, c)
  end.

Lemma take_app a k : take (Z.of_nat (length a)) (a ++ k) = (a, k).
Proof.
  induction a; intros.
  - simpl. destruct k; simpl; auto.
  - cbn [length app take]. destruct (Z.leb_spec (Z.of_nat (S (length a0))) 0); [lia|].
    replace (Z.of_nat (S (length a0)) - 1) with (Z.of_nat (length a0)) by lia.
    now rewrite IHa.
Qed.

Lemma take_short n s : Z.of_nat (length s) <= n -> take n s = (s, []).
Proof.
  revert n; induction s; intros n H; [reflexivity|].
  cbn [length take] in *. destruct (Z.leb_spec n 0); [lia|].
  rewrite IHs by lia. reflexivity.
Qed.

Lemma take_length n s a c : take n s = (a, c) -> s = a ++ c /\ Z.of_nat (length a) <= Z.max 0 n.
Proof.
  revert n a c; induction s; intros n x c H; cbn [take] in H.
  - inversion H; subst. simpl; split; auto; lia.
  - destruct (Z.leb_spec n 0).
    + inversion H; subst. simpl; split; auto; lia.
    + destruct (take (n - 1) s) as [a' c'] eqn:E. inversion H; subst.
      destruct (IHs _ _ _ E) as [-> Hl]. cbn [length app]. split; auto. lia.
Qed.

(* ------------------------------------------------------------------ list helpers *)
Lemma firstn_app_lt {A} n (a b : list A) : (n < length a)%nat -> firstn n (a ++ b) = firstn n a.
Proof.
  intros H. rewrite firstn_app. replace (n - length a)%nat with O by lia.
  simpl. now rewrite app_nil_r.
Qed.

Lemma firstn_app_ge {A} n (a b : list A) :
  (length a <= n)%nat -> firstn n (a ++ b) = a ++ firstn (n - length a) b.
Proof. intros H. rewrite firstn_app. now rewrite (firstn_all2 a) by lia. Qed.
