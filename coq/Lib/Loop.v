(** Kernel-computed enumeration over primitive integers, with the lemmas that lift
    `enumeration = true` (proved by vm_compute) to a universally quantified statement over Z.
    Used by C12 (finite calendar domain; the bound is part of every statement). *)
From Coq Require Import ZArith Lia Bool Uint63.
From Bermuda Require Import Lib.PyPrim.
Local Open Scope Z_scope.

(* tail-recursive: vm_compute evaluates it in constant stack *)
Fixpoint loop (n : nat) (i : int) (f : int -> bool) : bool :=
  match n with
  | O => true
  | S k => if f i then loop k (PrimInt63.add i 1%uint63) f else false
  end.

(* first failing index, for the failing-input search *)
Fixpoint find_fail (n : nat) (i : int) (f : int -> bool) : option int :=
  match n with
  | O => None
  | S k => if f i then find_fail k (PrimInt63.add i 1%uint63) f else Some i
  end.

Lemma of_Z_add a b : of_Z (a + b) = (of_Z a + of_Z b)%uint63.
Proof.
  apply to_Z_inj. rewrite add_spec, !of_Z_spec.
  rewrite <- Zplus_mod. reflexivity.
Qed.

Lemma of_Z_sub a b : of_Z (a - b) = (of_Z a - of_Z b)%uint63.
Proof.
  apply to_Z_inj. rewrite sub_spec, !of_Z_spec.
  rewrite <- Zminus_mod. reflexivity.
Qed.

Lemma loop_spec n : forall a f, loop n (of_Z a) f = true ->
  forall z, a <= z < a + Z.of_nat n -> f (of_Z z) = true.
Proof.
  induction n as [|n IH]; intros a f H z Hz.
  - simpl in Hz. lia.
  - cbn [loop] in H. destruct (f (of_Z a)) eqn:Hfa; [|discriminate].
    destruct (Z.eq_dec z a) as [->|Hne]; [exact Hfa|].
    change (PrimInt63.add (of_Z a) 1%uint63) with (of_Z a + of_Z 1)%uint63 in H.
    rewrite <- of_Z_add in H.
    apply (IH (a + 1) f H). lia.
Qed.

(** Rectangle:  p in [a, a+np), e in [b, b+ne). *)
Definition rect_ok (h : int -> int -> bool) (np ne : nat) (a b : Z) : bool :=
  let ob := of_Z b in
  loop np (of_Z a) (fun p => loop ne ob (h p)).

Lemma rect_ok_spec h np ne a b : rect_ok h np ne a b = true ->
  forall p e, a <= p < a + Z.of_nat np -> b <= e < b + Z.of_nat ne ->
  h (of_Z p) (of_Z e) = true.
Proof.
  unfold rect_ok. intros H p e Hp He.
  pose proof (loop_spec np a _ H p Hp) as H1. cbv beta in H1.
  exact (loop_spec ne b _ H1 e He).
Qed.

(** Sliding window:  p in [a, a+np), e in [p-w, p-w+nw), restricted by a guard on e. *)
Definition window_ok (g : int -> bool) (h : int -> int -> bool) (np nw : nat) (a w : Z) : bool :=
  let ow := of_Z w in
  loop np (of_Z a) (fun p => loop nw (PrimInt63.sub p ow) (fun e => if g e then h p e else true)).

Lemma window_ok_spec g h np nw a w : window_ok g h np nw a w = true ->
  forall p e, a <= p < a + Z.of_nat np -> p - w <= e < p - w + Z.of_nat nw ->
  g (of_Z e) = true -> h (of_Z p) (of_Z e) = true.
Proof.
  unfold window_ok. intros H p e Hp He Hg.
  pose proof (loop_spec np a _ H p Hp) as H1. cbv beta in H1.
  change (PrimInt63.sub (of_Z p) (of_Z w)) with (of_Z p - of_Z w)%uint63 in H1.
  rewrite <- of_Z_sub in H1.
  pose proof (loop_spec nw (p - w) _ H1 e He) as H2. cbv beta in H2.
  rewrite Hg in H2. exact H2.
Qed.

(** One-dimensional enumeration with a second, Z-indexed bounded parameter handled by the
    same rectangle lemma (offsets k in [kb, kb+nk) are passed as non-negative indices and
    shifted inside the kernel, so that no negative number goes through of_Z). *)

(* guard: lo <= e <= hi on (non-negative) ordinals, unsigned comparison *)
Definition in_rng (lo hi e : int) : bool := (lo <=? e)%uint63 && (e <=? hi)%uint63.

Lemma wB_value : wB = 9223372036854775808.
Proof. reflexivity. Qed.

Lemma in_rng_spec lo hi e : 0 <= lo -> hi <= 4611686018427387904 -> lo <= e <= hi ->
  in_rng (of_Z lo) (of_Z hi) (of_Z e) = true.
Proof.
  intros Hlo Hhi He. unfold in_rng. pose proof wB_value. apply andb_true_intro. split; apply leb_spec;
  rewrite !of_Z_spec, !Z.mod_small; lia.
Qed.

Lemma ieq_eq a b : ieq a b = true -> a = b.
Proof. apply eqb_correct. Qed.

Lemma date_eqb_eq a b : date_eqb a b = true -> a = b.
Proof.
  unfold date_eqb. intros H.
  apply andb_prop in H. destruct H as [H H3]. apply andb_prop in H. destruct H as [H1 H2].
  destruct a as [ya ma da], b as [yb mb db]; cbn [dyear dmonth dday] in *.
  apply ieq_eq in H1, H2, H3. subst. reflexivity.
Qed.

Lemma date_eqb_refl a : date_eqb a a = true.
Proof.
  unfold date_eqb, ieq. rewrite !eqb_refl. reflexivity.
Qed.
