(** Python primitive semantics on primitive 63-bit integers and binary64 floats.

    Everything here is *executable* (no proofs): it is the target language of the T-date
    translator (translate/t_date.py).  Python ints are unbounded; in the calendar domain every
    quantity is below 2^22, so signed 63-bit arithmetic is exact (validated bit-exactly against
    CPython by the C12 correspondence run on every check).

    We import PrimFloat/Uint63 only (not Floats), so no classical / extensionality axiom is
    pulled in; theorems that use the Uint63 specification lemmas depend on the standard
    library's Uint63 axioms, which are listed by Print Assumptions. *)
From Coq Require Import ZArith Bool Uint63 PrimFloat String.
Open Scope bool_scope.
Open Scope uint63_scope.

(* ---------- signed integers on top of PrimInt63 ---------- *)
Definition ineg (a : int) : int := PrimInt63.sub 0 a.
Definition iadd (a b : int) : int := PrimInt63.add a b.
Definition isub (a b : int) : int := PrimInt63.sub a b.
Definition imul (a b : int) : int := PrimInt63.mul a b.
Definition ieq (a b : int) : bool := PrimInt63.eqb a b.
Definition ilt (a b : int) : bool := PrimInt63.ltsb a b.
Definition ile (a b : int) : bool := PrimInt63.lesb a b.
(* Python // and % for a positive divisor *)
Definition py_floordiv (a b : int) : int :=
  let q := PrimInt63.divs a b in
  let r := PrimInt63.mods a b in
  if ilt r 0 then PrimInt63.sub q 1 else q.
Definition py_mod (a b : int) : int :=
  let r := PrimInt63.mods a b in
  if ilt r 0 then PrimInt63.add r b else r.

(* ---------- int <-> float ---------- *)
Definition i2f (i : int) : float :=
  if ilt i 0 then PrimFloat.opp (PrimFloat.of_uint63 (ineg i)) else PrimFloat.of_uint63 i.
Definition two52 : float := 4503599627370496%float.
(* round-to-nearest-even to an integral float, valid for 0 <= x < 2^51 *)
Definition rne_nn (x : float) : float := PrimFloat.sub (PrimFloat.add x two52) two52.
Definition floor_nn (x : float) : float :=
  let t := rne_nn x in if PrimFloat.ltb x t then PrimFloat.sub t 1%float else t.
(* exact conversion of a non-negative integral float to int *)
Definition f2i_nn (x : float) : int :=
  if PrimFloat.eqb x 0%float then 0
  else let '(f, e) := PrimFloat.frshiftexp x in
       PrimInt63.lsr (PrimFloat.normfr_mantissa f) (PrimInt63.sub 2154 e).
(* int(x): truncation toward zero *)
Definition py_int (x : float) : int :=
  if PrimFloat.ltb x 0%float then ineg (f2i_nn (floor_nn (PrimFloat.opp x)))
  else f2i_nn (floor_nn x).
(* round(x): ties to even *)
Definition py_round (x : float) : int :=
  if PrimFloat.ltb x 0%float then ineg (f2i_nn (rne_nn (PrimFloat.opp x)))
  else f2i_nn (rne_nn x).
(* x % 1  (result in [0,1), Python float modulo with positive divisor 1) *)
Definition py_fmod1 (x : float) : float :=
  if PrimFloat.ltb x 0%float then
    let ax := PrimFloat.opp x in
    let fr := PrimFloat.sub ax (floor_nn ax) in
    if PrimFloat.eqb fr 0%float then 0%float else PrimFloat.add (PrimFloat.opp fr) 1%float
  else PrimFloat.sub x (floor_nn x).

(* ---------- datetime.date as (year, month, day) of primitive ints ---------- *)
Record date : Set := mkdate { dyear : int; dmonth : int; dday : int }.
Definition date_eqb (a b : date) : bool :=
  ieq (dyear a) (dyear b) && ieq (dmonth a) (dmonth b) && ieq (dday a) (dday b).
Definition date_ltb (a b : date) : bool :=
  if ilt (dyear a) (dyear b) then true else
  if ilt (dyear b) (dyear a) then false else
  if ilt (dmonth a) (dmonth b) then true else
  if ilt (dmonth b) (dmonth a) then false else ilt (dday a) (dday b).
Definition date_leb (a b : date) : bool := negb (date_ltb b a).
Definition date_max : date := mkdate 9999 12 31.

Definition is_leap (y : int) : bool :=
  ieq (py_mod y 4) 0 && (negb (ieq (py_mod y 100) 0) || ieq (py_mod y 400) 0).
(* calendar.monthrange(y, m)[1] *)
Definition py_monthrange_days (y m : int) : int :=
  if ieq m 2 then (if is_leap y then 29 else 28)
  else if ieq m 4 || ieq m 6 || ieq m 9 || ieq m 11 then 30 else 31.
(* datetime._DAYS_BEFORE_MONTH, non-leap *)
Definition days_before_month_tbl (m : int) : int :=
  if ieq m 1 then 0 else if ieq m 2 then 31 else if ieq m 3 then 59 else if ieq m 4 then 90
  else if ieq m 5 then 120 else if ieq m 6 then 151 else if ieq m 7 then 181
  else if ieq m 8 then 212 else if ieq m 9 then 243 else if ieq m 10 then 273
  else if ieq m 11 then 304 else 334.
Definition days_before_month (y m : int) : int :=
  iadd (days_before_month_tbl m) (if ilt 2 m && is_leap y then 1 else 0).
Definition days_before_year (y : int) : int :=
  let y1 := isub y 1 in
  iadd (isub (iadd (imul y1 365) (py_floordiv y1 4)) (py_floordiv y1 100)) (py_floordiv y1 400).
(* date.toordinal() *)
Definition ord_of_date (d : date) : int :=
  iadd (iadd (days_before_year (dyear d)) (days_before_month (dyear d) (dmonth d))) (dday d).
(* date.fromordinal(n), CPython's _ord2ymd *)
Definition date_of_ord (n0 : int) : date :=
  let n := isub n0 1 in
  let n400 := py_floordiv n 146097 in let n := py_mod n 146097 in
  let year := iadd (imul n400 400) 1 in
  let n100 := py_floordiv n 36524 in let n := py_mod n 36524 in
  let n4 := py_floordiv n 1461 in let n := py_mod n 1461 in
  let n1 := py_floordiv n 365 in let n := py_mod n 365 in
  let year := iadd year (iadd (iadd (imul n100 100) (imul n4 4)) n1) in
  if ieq n1 4 || ieq n100 4 then mkdate (isub year 1) 12 31 else
  let leapyear := ieq n1 3 && (negb (ieq n4 24) || ieq n100 3) in
  let month := PrimInt63.lsr (iadd n 50) 5 in
  let preceding := iadd (days_before_month_tbl month) (if ilt 2 month && leapyear then 1 else 0) in
  let '(month, preceding) :=
    if ilt n preceding then
      let month' := isub month 1 in
      let dim := if ieq month' 2 then (if leapyear then 29 else 28)
                 else if ieq month' 4 || ieq month' 6 || ieq month' 9 || ieq month' 11 then 30 else 31 in
      (month', isub preceding dim)
    else (month, preceding) in
  mkdate year month (iadd (isub n preceding) 1).
(* d + timedelta(days=k) ; d1 - d2 as a day count *)
Definition date_add_days (d : date) (k : int) : date := date_of_ord (iadd (ord_of_date d) k).
Definition date_sub (a b : date) : int := isub (ord_of_date a) (ord_of_date b).

(* ---------- strings (unit names) ---------- *)
Definition str_eqb (a b : string) : bool := String.eqb a b.
