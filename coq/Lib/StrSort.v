(* Byte strings as dictionary keys: equality, lexicographic order (= Python's code-point order on
   str, because UTF-8 preserves it), the sorted duplicate-free string pool and index lookup. *)
From Coq Require Import ZArith List Bool Lia.
From Bermuda Require Import Lib.Bytes.
Import ListNotations.
Open Scope Z_scope.

Definition str := list Z.

Fixpoint str_cmp (a b : str) : comparison :=
  match a, b with
  | [], [] => Eq
  | [], _ :: _ => Lt
  | _ :: _, [] => Gt
  | x :: a', y :: b' => match x ?= y with Eq => str_cmp a' b' | c => c end
  end.

Definition str_eqb (a b : str) : bool := match str_cmp a b with Eq => true | _ => false end.

Lemma str_cmp_eq a b : str_cmp a b = Eq <-> a = b.
Proof.
  revert b; induction a; destruct b; simpl; split; intros H; try congruence; auto.
  - destruct (Z.compare_spec a z); try discriminate. subst. f_equal. now apply IHa.
  - inversion H; subst. rewrite Z.compare_refl. now apply IHa.
Qed.

Lemma str_eqb_eq a b : str_eqb a b = true <-> a = b.
Proof.
  unfold str_eqb. rewrite <- str_cmp_eq. destruct (str_cmp a b); split; congruence.
Qed.

Lemma str_eqb_refl a : str_eqb a a = true.
Proof. now apply str_eqb_eq. Qed.

Lemma str_eqb_neq a b : str_eqb a b = false <-> a <> b.
Proof.
  rewrite <- str_eqb_eq. destruct (str_eqb a b); split; congruence.
Qed.

Lemma str_cmp_antisym a b : str_cmp b a = CompOpp (str_cmp a b).
Proof.
  revert b; induction a; destruct b; simpl; auto.
  rewrite (Z.compare_antisym a z). destruct (a ?= z); simpl; auto.
Qed.

Lemma str_cmp_lt_trans a b c : str_cmp a b = Lt -> str_cmp b c = Lt -> str_cmp a c = Lt.
Proof.
  revert b c; induction a; destruct b, c; simpl; intros H1 H2; try congruence.
  destruct (Z.compare_spec a z), (Z.compare_spec z z0); try discriminate; subst.
  - rewrite Z.compare_refl. eauto.
  - apply Z.compare_lt_iff in H0. now rewrite H0.
  - apply Z.compare_lt_iff in H. now rewrite H.
  - assert (a < z0) by lia. apply Z.compare_lt_iff in H3. now rewrite H3.
Qed.

(* insertion into a strictly sorted list, dropping duplicates *)
Fixpoint ins (k : str) (l : list str) : list str :=
  match l with
  | [] => [k]
  | h :: t => match str_cmp k h with Lt => k :: l | Eq => l | Gt => h :: ins k t end
  end.

Definition sort_dedup (l : list str) : list str := fold_right ins [] l.

Lemma ins_in k x l : In k (ins x l) <-> k = x \/ In k l.
Proof.
  induction l; simpl.
  - intuition.
  - destruct (str_cmp x a) eqn:E; simpl.
    + apply str_cmp_eq in E; subst. intuition.
    + intuition.
    + rewrite IHl. intuition.
Qed.

Lemma sort_dedup_in k l : In k (sort_dedup l) <-> In k l.
Proof.
  induction l; simpl; [tauto|]. rewrite ins_in, IHl. intuition.
Qed.

(* strictly sorted lists *)
Fixpoint ssorted (l : list str) : Prop :=
  match l with
  | [] => True
  | h :: t => match t with [] => True | h2 :: _ => str_cmp h h2 = Lt end /\ ssorted t
  end.

Lemma ins_sorted k l : ssorted l -> ssorted (ins k l).
Proof.
  induction l; intros H.
  - simpl; auto.
  - cbn [ins]. destruct (str_cmp k a) eqn:E.
    + assumption.
    + cbn [ssorted]. split; auto.
    + destruct H as [H1 H2]. specialize (IHl H2).
      assert (Hak : str_cmp a k = Lt) by (rewrite str_cmp_antisym, E; reflexivity).
      cbn [ssorted]. split; auto.
      destruct l as [|h2 t2]; cbn [ins].
      * assumption.
      * destruct (str_cmp k h2); auto.
Qed.

Lemma sort_dedup_sorted l : ssorted (sort_dedup l).
Proof. induction l; simpl; auto. now apply ins_sorted. Qed.

Lemma ssorted_head_lt h t : ssorted (h :: t) -> forall k, In k t -> str_cmp h k = Lt.
Proof.
  revert h; induction t; intros h [H1 H2] k Hk; [inversion Hk|].
  destruct Hk as [->|Hk]; auto.
  eapply str_cmp_lt_trans; eauto.
Qed.

Lemma str_cmp_refl a : str_cmp a a = Eq.
Proof. now apply str_cmp_eq. Qed.

Lemma ssorted_unique l1 l2 :
  ssorted l1 -> ssorted l2 -> (forall k, In k l1 <-> In k l2) -> l1 = l2.
Proof.
  revert l2; induction l1 as [|h1 t1 IH]; intros l2 S1 S2 HI.
  - destruct l2 as [|h2 t2]; auto. exfalso. apply (HI h2). now left.
  - destruct l2 as [|h2 t2]. { exfalso. apply (HI h1). now left. }
    assert (Hh : h1 = h2).
    { destruct (proj1 (HI h1) (or_introl eq_refl)) as [->|Hin1]; auto.
      destruct (proj2 (HI h2) (or_introl eq_refl)) as [->|Hin2]; auto.
      pose proof (ssorted_head_lt _ _ S1 _ Hin2) as A.
      pose proof (ssorted_head_lt _ _ S2 _ Hin1) as B.
      rewrite str_cmp_antisym, A in B. discriminate. }
    subst h2. f_equal. apply IH.
    + apply S1.
    + apply S2.
    + intros k; split; intros Hk.
      * destruct (proj1 (HI k) (or_intror Hk)) as [<-|]; auto.
        pose proof (ssorted_head_lt _ _ S1 _ Hk) as A. rewrite str_cmp_refl in A. discriminate.
      * destruct (proj2 (HI k) (or_intror Hk)) as [<-|]; auto.
        pose proof (ssorted_head_lt _ _ S2 _ Hk) as A. rewrite str_cmp_refl in A. discriminate.
Qed.

(* index of the first occurrence (pool_lookup[key]) *)
Fixpoint index_of (k : str) (l : list str) : Z :=
  match l with [] => 0 | h :: t => if str_eqb h k then 0 else 1 + index_of k t end.

Lemma index_of_range k l : In k l -> 0 <= index_of k l < Z.of_nat (length l).
Proof.
  induction l; intros H; [inversion H|].
  cbn [index_of length]. destruct (str_eqb a k) eqn:E.
  - lia.
  - destruct H as [->|H]. { rewrite str_eqb_refl in E. discriminate. }
    specialize (IHl H). lia.
Qed.

Lemma index_of_nth k l : In k l -> nth_error l (Z.to_nat (index_of k l)) = Some k.
Proof.
  induction l; intros H; [inversion H|].
  cbn [index_of]. destruct (str_eqb a k) eqn:E.
  - apply str_eqb_eq in E. subst. reflexivity.
  - destruct H as [->|H]. { rewrite str_eqb_refl in E. discriminate. }
    pose proof (index_of_range _ _ H).
    replace (Z.to_nat (1 + index_of k l)) with (S (Z.to_nat (index_of k l))) by lia.
    simpl. auto.
Qed.
