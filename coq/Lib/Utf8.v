(* Validity of UTF-8 exactly as CPython's strict decoder (bytes.decode("utf-8")) accepts it:
   shortest form only, no surrogates (ED A0..BF), nothing above U+10FFFF.  Strings are otherwise
   opaque byte lists in the codec model. *)
From Coq Require Import ZArith List Bool.
From Bermuda Require Import Lib.Bytes.
Import ListNotations.
Open Scope Z_scope.

Definition in_rng (lo hi b : Z) : bool := (lo <=? b) && (b <=? hi).
Definition contb (b : Z) : bool := in_rng 128 191 b.

Fixpoint utf8_valid (s : bytes) : bool :=
  match s with
  | [] => true
  | b :: r =>
    if in_rng 0 127 b then utf8_valid r
    else if in_rng 194 223 b then
      match r with c1 :: r1 => contb c1 && utf8_valid r1 | _ => false end
    else if in_rng 224 239 b then
      match r with
      | c1 :: c2 :: r2 =>
        (if b =? 224 then in_rng 160 191 c1 else if b =? 237 then in_rng 128 159 c1 else contb c1)
        && contb c2 && utf8_valid r2
      | _ => false
      end
    else if in_rng 240 244 b then
      match r with
      | c1 :: c2 :: c3 :: r3 =>
        (if b =? 240 then in_rng 144 191 c1 else if b =? 244 then in_rng 128 143 c1 else contb c1)
        && contb c2 && contb c3 && utf8_valid r3
      | _ => false
      end
    else false
  end.
