(* Parser monad over byte streams and the pointwise codec predicates of DESIGN Appendix B.

   For a parser [p], a byte string [e] (the encoding of some value [x]):
     RtAt p e x    : p (e ++ k) = Ok x k for every continuation k              (round trip)
     TbAt p e      : on every STRICT prefix of e, p fails or has swallowed everything
                     (this is how Python's short [read] behaves: a truncated string is accepted)
     StrictAt p e  : on every strict prefix of e, p fails
     Eof p         : p fails on the empty stream
   and sequencing lemmas for [bind]. *)
From Coq Require Import ZArith List Bool Lia.
From Bermuda Require Import Lib.Bytes.
Import ListNotations.

Inductive err := EValue | EStruct | EIndex | EType | EUnicode | EFuel | EEof.

Inductive res (A : Type) := Ok (a : A) (rest : bytes) | Err (e : err).
Arguments Ok {A} _ _.
Arguments Err {A} _.

Inductive result (A : Type) := ROk (a : A) | RErr (e : err).
Arguments ROk {A} _.
Arguments RErr {A} _.

Definition parser (A : Type) := bytes -> res A.

Definition ret {A} (a : A) : parser A := fun s => Ok a s.
Definition fail {A} (e : err) : parser A := fun _ => Err e.
Definition bind {A B} (p : parser A) (f : A -> parser B) : parser B :=
  fun s => match p s with Ok a r => f a r | Err e => Err e end.
(* map with a validating function (a constructor that may raise) *)
Definition pmapr {A B} (g : A -> result B) (p : parser A) : parser B :=
  fun s => match p s with
           | Ok a r => match g a with ROk b => Ok b r | RErr e => Err e end
           | Err e => Err e
           end.
Definition pmap {A B} (g : A -> B) (p : parser A) : parser B := pmapr (fun a => ROk (g a)) p.

(* struct.unpack(fmt, stream.read(n)) : exactly n bytes or struct.error *)
Fixpoint read_exact (n : nat) (s : bytes) : res bytes :=
  match n with
  | O => Ok [] s
  | S n' => match s with
            | [] => Err EStruct
            | b :: r => match read_exact n' r with Ok a r' => Ok (b :: a) r' | Err e => Err e end
            end
  end.

(* a fixed-width field: read exactly n bytes, then decode/validate *)
Definition fixedp {A} (n : nat) (g : bytes -> result A) : parser A := pmapr g (read_exact n).

(* stream.read(n) : up to n bytes, never fails *)
Definition read_upto (n : Z) : parser bytes := fun s => let (a, c) := take n s in Ok a c.

Definition IsErr {A} (r : res A) : Prop := exists e, r = Err e.
Definition TruncBad {A} (r : res A) : Prop := IsErr r \/ exists y, r = Ok y [].

Definition RtAt {A} (p : parser A) (e : bytes) (x : A) : Prop := forall k, p (e ++ k) = Ok x k.
Definition TbAt {A} (p : parser A) (e : bytes) : Prop :=
  forall n, (n < length e)%nat -> TruncBad (p (firstn n e)).
Definition StrictAt {A} (p : parser A) (e : bytes) : Prop :=
  forall n, (n < length e)%nat -> IsErr (p (firstn n e)).
Definition Eof {A} (p : parser A) : Prop := IsErr (p []).

Lemma IsErr_Err {A} e : IsErr (@Err A e).
Proof. now exists e. Qed.
Lemma IsErr_TruncBad {A} (r : res A) : IsErr r -> TruncBad r.
Proof. now left. Qed.
Lemma strict_tb {A} (p : parser A) e : StrictAt p e -> TbAt p e.
Proof. intros H n Hn. left. now apply H. Qed.
Lemma strict_eof {A} (p : parser A) e : StrictAt p e -> e <> [] -> Eof p.
Proof. intros H Hne. destruct e; [congruence|]. apply (H O). simpl; lia. Qed.
Lemma strict_nil {A} (p : parser A) : StrictAt p [].
Proof. intros n Hn. simpl in Hn. lia. Qed.
Lemma tb_nil {A} (p : parser A) : TbAt p [].
Proof. intros n Hn. simpl in Hn. lia. Qed.

Lemma rt_nil {A} (p : parser A) e x : RtAt p e x -> p e = Ok x [].
Proof. intros H. specialize (H []). now rewrite app_nil_r in H. Qed.

(* ------------------------------------------------------------------ read_exact / fixedp *)
Lemma read_exact_app a k : read_exact (length a) (a ++ k) = Ok a k.
Proof. induction a; simpl; auto. now rewrite IHa. Qed.

Lemma read_exact_short n s : (length s < n)%nat -> read_exact n s = Err EStruct.
Proof.
  revert s; induction n; intros s H; [lia|].
  destruct s; simpl; auto. rewrite IHn; auto. simpl in H; lia.
Qed.

Lemma fixedp_rt {A} n (g : bytes -> result A) e x :
  length e = n -> g e = ROk x -> RtAt (fixedp n g) e x.
Proof. intros <- Hg k. unfold fixedp, pmapr. now rewrite read_exact_app, Hg. Qed.

Lemma fixedp_strict {A} n (g : bytes -> result A) e : length e = n -> StrictAt (fixedp n g) e.
Proof.
  intros <- m Hm. unfold fixedp, pmapr. rewrite read_exact_short.
  - apply IsErr_Err.
  - rewrite firstn_length. lia.
Qed.

Lemma fixedp_eof {A} n (g : bytes -> result A) : (0 < n)%nat -> Eof (fixedp n g).
Proof. intros H. unfold Eof, fixedp, pmapr. rewrite read_exact_short by (simpl; lia). apply IsErr_Err. Qed.

(* ------------------------------------------------------------------ ret / pmapr *)
Lemma ret_rt {A} (x : A) : RtAt (ret x) [] x.
Proof. intros k. reflexivity. Qed.

Lemma pmapr_rt {A B} (g : A -> result B) p e a x :
  RtAt p e a -> g a = ROk x -> RtAt (pmapr g p) e x.
Proof. intros H Hg k. unfold pmapr. now rewrite H, Hg. Qed.

Lemma pmapr_tb {A B} (g : A -> result B) p e : TbAt p e -> TbAt (pmapr g p) e.
Proof.
  intros H n Hn. unfold pmapr. destruct (H n Hn) as [[er ->]|[y ->]].
  - left. apply IsErr_Err.
  - destruct (g y); [right; eauto | left; apply IsErr_Err].
Qed.

Lemma pmapr_strict {A B} (g : A -> result B) p e : StrictAt p e -> StrictAt (pmapr g p) e.
Proof. intros H n Hn. unfold pmapr. destruct (H n Hn) as [er ->]. apply IsErr_Err. Qed.

Lemma pmapr_eof {A B} (g : A -> result B) p : Eof p -> Eof (pmapr g p).
Proof. intros [er H]. unfold Eof, pmapr. rewrite H. apply IsErr_Err. Qed.

(* ------------------------------------------------------------------ bind *)
Lemma bind_rt {A B} (pa : parser A) (f : A -> parser B) ea eb a x :
  RtAt pa ea a -> RtAt (f a) eb x -> RtAt (bind pa f) (ea ++ eb) x.
Proof. intros Ha Hb k. unfold bind. now rewrite <- app_assoc, Ha, Hb. Qed.

Lemma bind_eof {A B} (pa : parser A) (f : A -> parser B) : Eof pa -> Eof (bind pa f).
Proof. intros [er H]. unfold Eof, bind. rewrite H. apply IsErr_Err. Qed.

(* first component strict: nothing is required of the continuation at EOF *)
Lemma bind_strict_S {A B} (pa : parser A) (f : A -> parser B) ea eb a :
  RtAt pa ea a -> StrictAt pa ea -> StrictAt (f a) eb -> StrictAt (bind pa f) (ea ++ eb).
Proof.
  intros Hrt Hs Hb n Hn. unfold bind. rewrite app_length in Hn.
  destruct (Nat.lt_ge_cases n (length ea)) as [Hlt|Hge].
  - rewrite firstn_app_lt by assumption. destruct (Hs n Hlt) as [er ->]. apply IsErr_Err.
  - rewrite firstn_app_ge by assumption. rewrite Hrt. apply Hb. lia.
Qed.

Lemma bind_tb_S {A B} (pa : parser A) (f : A -> parser B) ea eb a :
  RtAt pa ea a -> StrictAt pa ea -> TbAt (f a) eb -> TbAt (bind pa f) (ea ++ eb).
Proof.
  intros Hrt Hs Hb n Hn. unfold bind. rewrite app_length in Hn.
  destruct (Nat.lt_ge_cases n (length ea)) as [Hlt|Hge].
  - rewrite firstn_app_lt by assumption. destruct (Hs n Hlt) as [er ->]. left; apply IsErr_Err.
  - rewrite firstn_app_ge by assumption. rewrite Hrt. apply Hb. lia.
Qed.

(* first component only TruncBad (it may swallow a short read): the continuation must fail at EOF *)
Lemma bind_strict_T {A B} (pa : parser A) (f : A -> parser B) ea eb a :
  RtAt pa ea a -> TbAt pa ea -> (forall y, Eof (f y)) -> StrictAt (f a) eb ->
  StrictAt (bind pa f) (ea ++ eb).
Proof.
  intros Hrt Ht He Hb n Hn. unfold bind. rewrite app_length in Hn.
  destruct (Nat.lt_ge_cases n (length ea)) as [Hlt|Hge].
  - rewrite firstn_app_lt by assumption. destruct (Ht n Hlt) as [[er ->]|[y ->]].
    + apply IsErr_Err.
    + apply He.
  - rewrite firstn_app_ge by assumption. rewrite Hrt. apply Hb. lia.
Qed.

Lemma bind_tb_T {A B} (pa : parser A) (f : A -> parser B) ea eb a :
  RtAt pa ea a -> TbAt pa ea -> (forall y, TruncBad (f y [])) -> TbAt (f a) eb ->
  TbAt (bind pa f) (ea ++ eb).
Proof.
  intros Hrt Ht He Hb n Hn. unfold bind. rewrite app_length in Hn.
  destruct (Nat.lt_ge_cases n (length ea)) as [Hlt|Hge].
  - rewrite firstn_app_lt by assumption. destruct (Ht n Hlt) as [[er ->]|[y ->]].
    + left; apply IsErr_Err.
    + apply He.
  - rewrite firstn_app_ge by assumption. rewrite Hrt. apply Hb. lia.
Qed.

Lemma eof_truncbad {A} (p : parser A) : Eof p -> TruncBad (p []).
Proof. intros H. now left. Qed.

(* ------------------------------------------------------------------ read_upto *)
Lemma read_upto_rt a : RtAt (read_upto (Z.of_nat (length a))) a a.
Proof. intros k. unfold read_upto. now rewrite take_app. Qed.

Lemma read_upto_prefix a n :
  (n < length a)%nat -> read_upto (Z.of_nat (length a)) (firstn n a) = Ok (firstn n a) [].
Proof.
  intros H. unfold read_upto. rewrite take_short; auto. rewrite firstn_length. lia.
Qed.

Lemma read_upto_tb a : TbAt (read_upto (Z.of_nat (length a))) a.
Proof. intros n Hn. right. rewrite read_upto_prefix by assumption. eauto. Qed.
