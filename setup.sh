#!/bin/bash
# Build the static Coq development (everything that does not depend on /repo).
# ./setup.sh        full build, verbose
# ./setup.sh quiet  incremental build, prints only on failure
# _CoqProject is regenerated from a directory scan (Lib Model Proofs Props) so that work on
# different properties never edits a shared file.  coq/GenProps/ holds property files that import
# modules generated from /repo at check time; they are compiled by the checks in build/<ID>/.
set -o pipefail
cd "$(dirname "$0")/coq"
{ echo "-Q . Bermuda"; find Lib Model Proofs Props -name '*.v' | sort; } > _CoqProject.new
if ! cmp -s _CoqProject.new _CoqProject; then mv _CoqProject.new _CoqProject; else rm _CoqProject.new; fi
if [ ! -f Makefile ] || [ _CoqProject -nt Makefile ]; then
  coq_makefile -f _CoqProject -o Makefile >/dev/null || exit 2
fi
# A stale or half-written dependency file (.Makefile.d, e.g. when the tree was copied while a build was running) makes
# `make` compile files before their dependencies ("Cannot find a physical path ..."): on failure the dependency
# file is regenerated and the build repeated once.
build() { timeout 3000 make -k -j16 2>&1; }
if [ "$1" = "quiet" ]; then
  out=$(build) || { rm -f .Makefile.d; out=$(build); } || { echo "$out" | tail -80; exit 2; }
else
  # a file that does not compile makes the checks that depend on it fail their own obligations;
  # the remaining properties stay checkable, so the set-up itself does not fail
  build || { rm -f .Makefile.d; build; } || echo "setup.sh: WARNING some static Coq files did not compile (see above)"
fi
exit 0
